#!/venv/bin/python
"""Regenerates MANIFEST.json from the check modules present under pv/checks (dev-time)."""
import json, os, sys
sys.path.insert(0, '/verif')
os.environ.setdefault('PV_REPO', '/repo')
sys.path.insert(0, '/repo'); sys.path.insert(0, '/verif/.deps')
import importlib
props = [json.loads(l) for l in open('/verif/properties.jsonl')]
checks, na = [], []
for p in props:
    pid = p['id']
    path = '/verif/pv/checks/%s.py' % pid.lower()
    if not os.path.exists(path):
        na.append({'property_id': pid, 'reason': 'check not built yet (work in progress; see DESIGN.md 4/%s for the planned generated-input check)' % pid})
        continue
    mod = importlib.import_module('pv.checks.%s' % pid.lower())
    checks.append({
        'property_id': pid,
        'quick_cmd': './check %s --tier quick' % pid,
        'thorough_cmd': './check %s --tier thorough' % pid,
        'evidence_file': 'evidence/%s.json' % pid,
        'replay_cmd_template': './check %s --replay {path}' % pid,
        'engine': 'pv',
        'level_claimed': {'category': mod.LEVEL, 'text': mod.LEVEL_TEXT if hasattr(mod, 'LEVEL_TEXT') else mod.RULE,
                          'design_ref': mod.DESIGN_REF},
        'level_note': '; '.join(mod.ASSUMPTIONS),
        'technique': getattr(mod, 'TECHNIQUE', 'property-based testing (Hypothesis) against an explicit oracle'),
    })
m = {
 'version': 1,
 'setup_cmd': 'sh /verif/setup.sh',
 'hooks': {'guard': 'PYASN1_VERIF', 'enable': 'no source hooks are used: every check imports /repo/pyasn1 afresh in a new process (PYTHONPATH=/repo) and observes it through the public API and test doubles',
           'baseline_off_cmd': 'cd /repo && /venv/bin/python -m pytest -ra -q -p no:cacheprovider --timeout=900 --continue-on-collection-errors',
           'source_commits': [], 'add_only': True},
 'engines': [{'name': 'pv', 'path': 'pv/', 'serves_properties': [c['property_id'] for c in checks],
              'kind_free_text': 'Hypothesis-driven generated-input search (type universe generator, independent X.690 reference, stream doubles, state machines) with collection, bucketing and known-finding attribution; sharded over 16 processes'}],
 'checks': checks,
 'not_applicable': na,
 'notes': 'Genuine defects are either repaired by fix: commits in /repo or listed in known_findings.json (KNOWN-FINDING lines). VERIF_SEED selects the run; PV_REPO may point the checks at another tree (dev-time sensitivity runs only).',
}
json.dump(m, open('/verif/MANIFEST.json', 'w'), indent=1)
print('checks:', [c['property_id'] for c in checks], 'n/a:', len(na))
