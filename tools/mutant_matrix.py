#!/venv/bin/python
"""Dev-time: run every suite-surviving candidate mutant against the checks of its target properties; write mutants/kill_matrix.json."""
import json, os, subprocess, tempfile
ms = [m for m in json.load(open('/verif/mutants/candidates.json')) if m['suite'] == 'SURVIVES']
out = {}
for m in ms:
    wt = tempfile.mkdtemp(prefix='mm_', dir='/tmp'); os.rmdir(wt)
    subprocess.call('git -C /repo worktree add --detach %s HEAD >/dev/null 2>&1' % wt, shell=True)
    try:
        p = os.path.join(wt, m['file']); s = open(p).read()
        if s.count(m['old']) < 1:
            out[m['id']] = {'status': 'pattern gone (code changed by a fix)'}; print(m['id'], 'pattern gone'); continue
        open(p, 'w').write(s.replace(m['old'], m['new'], m.get('count', 1)))
        r = subprocess.run('timeout 300 /venv/bin/python -m pytest -q -p no:cacheprovider 2>&1 | tail -1', shell=True, cwd=wt, capture_output=True, text=True)
        suite = '1149 passed' in r.stdout
        res = {}
        for pr in m['properties']:
            r = subprocess.run('PV_REPO=%s timeout 900 /verif/check %s --no-evidence 2>&1' % (wt, pr), shell=True, capture_output=True, text=True)
            v = [l for l in r.stdout.splitlines() if l.startswith('violation:')]
            res[pr] = {'exit': r.returncode, 'first_violation': v[0][:180] if v else None}
        out[m['id']] = {'suite_still_green': suite, 'checks': res}
        print(m['id'], 'suite', suite, {k: x['exit'] for k, x in res.items()})
    finally:
        subprocess.call('git -C /repo worktree remove --force %s' % wt, shell=True)
json.dump(out, open('/verif/mutants/kill_matrix.json', 'w'), indent=1)
