#!/bin/sh
# dev-time: re-create seeded/<id>/patch.diff against the current /repo HEAD (3-way apply), keep the original as patch.orig.diff
id=$1
wt=$(mktemp -u /tmp/rb_XXXX)
git -C /repo worktree add --detach $wt HEAD >/dev/null 2>&1
cd $wt
if git apply --check /verif/seeded/$id/patch.diff 2>/dev/null; then echo "$id applies cleanly"; else
  if git apply --3way /verif/seeded/$id/patch.diff >/dev/null 2>&1 && ! git diff --name-only --diff-filter=U | grep -q .; then
     [ -f /verif/seeded/$id/patch.orig.diff ] || cp /verif/seeded/$id/patch.diff /verif/seeded/$id/patch.orig.diff
     git diff HEAD > /verif/seeded/$id/patch.diff; echo "$id rebased"
  else echo "$id CONFLICT"; git diff | head -60; fi
fi
cd /; git -C /repo worktree remove --force $wt
