#!/bin/sh
# Dev-time: take sub-agent output $W/<Cnn>/out/{a,b} in as seeded/<Cnn>$S1, <Cnn>$S2 and run the target check on each.
# usage: W=/tmp/w3 S="e f" tools/intake.sh C01 C02 ...   (defaults: round 2 = /tmp/w2, "c d")
W=${W:-/tmp/w2}; set -- $S -- "$@"; if [ "$1" = "--" ]; then S1=c; S2=d; shift; else S1=$1; S2=$2; shift 3; fi
for P in "$@"; do
  for x in a:$S1 b:$S2; do
    s=${x%%:*}; t=${x##*:}
    [ -f $W/$P/out/$s/patch.diff ] || { echo "$P/$s: no patch"; continue; }
    /verif/tools/verify_seed.py $W/$P/out/$s ${P}$t $P 2>&1 | cut -c1-400
    [ -d /verif/seeded/${P}$t ] && /verif/tools/kill_matrix.py ${P}$t 2>&1 | tail -1
  done
done
