#!/bin/sh
# Dev-time: take round-2 sub-agent output /tmp/w2/<Cnn>/out/{a,b} in as seeded/<Cnn>c, <Cnn>d and run the target check on each.
for P in "$@"; do
  for x in a:c b:d; do
    s=${x%%:*}; t=${x##*:}
    [ -f /tmp/w2/$P/out/$s/patch.diff ] || { echo "$P/$s: no patch"; continue; }
    /verif/tools/verify_seed.py /tmp/w2/$P/out/$s ${P}$t $P 2>&1 | cut -c1-400
    [ -d /verif/seeded/${P}$t ] && /verif/tools/kill_matrix.py ${P}$t 2>&1 | tail -1
  done
done
