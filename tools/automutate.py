#!/venv/bin/python
"""Dev-time sensitivity measurement: automatic first-order mutants of the files the properties are anchored in.

  automutate.py gen <n-per-file> <seed>      draw mutants (AST-located, applied textually), write mutants/auto/candidates.json
  automutate.py suite                        run the repository's suite on every candidate (16 in parallel, scratch copies
                                             under /tmp, removed at once); keep the survivors in mutants/auto/survivors.json
  automutate.py kill [<max>]                 run the quick tier of the checks whose property is anchored in the mutated file
                                             (properties.jsonl anchors.files) against every survivor; mutants/auto/kill.json

Operators: comparison swap (< <=, > >=, == !=, is / is not), and/or swap, `not` removal / insertion on if-tests,
integer constant +-1 (and 0x80 <-> 0x7f style neighbours), True/False swap, `+`/`-` swap, dropping a `break`/`continue`
(replaced by `pass`), dropping a statement-level call (replaced by `pass`), `return x` -> `return None` is NOT used (too crude).
Only code inside functions is mutated; docstrings, debug logging (`LOG(...)`, `if LOG:` bodies), `__repr__`, prettyPrint*
and exception messages are skipped because no listed property speaks about them."""
import ast, json, os, random, shutil, subprocess, sys, tempfile, hashlib
from concurrent.futures import ThreadPoolExecutor

VERIF = '/verif'
REPO = os.environ.get('PV_REPO', '/repo')
OUT = os.path.join(VERIF, 'mutants', 'auto')
FILES = ['pyasn1/codec/ber/decoder.py', 'pyasn1/codec/ber/encoder.py', 'pyasn1/codec/cer/encoder.py', 'pyasn1/codec/cer/decoder.py',
         'pyasn1/codec/der/encoder.py', 'pyasn1/codec/der/decoder.py', 'pyasn1/codec/streaming.py', 'pyasn1/codec/native/encoder.py',
         'pyasn1/codec/native/decoder.py', 'pyasn1/type/univ.py', 'pyasn1/type/base.py', 'pyasn1/type/constraint.py', 'pyasn1/type/tag.py',
         'pyasn1/type/tagmap.py', 'pyasn1/type/namedtype.py', 'pyasn1/type/opentype.py', 'pyasn1/type/useful.py', 'pyasn1/type/char.py',
         'pyasn1/compat/integer.py']
SKIP_FUNCS = ('__repr__', 'prettyPrint', 'prettyPrintType', 'prettyOut', '__str__', 'prettyIn_unused')
CMP = {ast.Lt: '<=', ast.LtE: '<', ast.Gt: '>=', ast.GtE: '>', ast.Eq: '!=', ast.NotEq: '==', ast.Is: 'is not', ast.IsNot: 'is'}
CMP_SRC = {ast.Lt: '<', ast.LtE: '<=', ast.Gt: '>', ast.GtE: '>=', ast.Eq: '==', ast.NotEq: '!=', ast.Is: 'is', ast.IsNot: 'is not'}


def props_for(path):
    out = []
    for line in open(os.path.join(VERIF, 'properties.jsonl')):
        d = json.loads(line)
        if path in d['anchors']['files']:
            out.append(d['id'])
    return out


class Finder(ast.NodeVisitor):
    def __init__(self, src):
        self.src = src
        self.lines = src.split('\n')
        self.offs = [0]
        for l in self.lines:
            self.offs.append(self.offs[-1] + len(l) + 1)
        self.muts = []       # (start, end, replacement, description)
        self.func = []
        self.in_log = 0

    def pos(self, lineno, col):
        # col offsets are utf8 byte offsets; sources are ascii except a few comments - good enough, verified by compile()
        return self.offs[lineno - 1] + col

    def seg(self, node):
        return self.pos(node.lineno, node.col_offset), self.pos(node.end_lineno, node.end_col_offset)

    def add(self, a, b, new, what, node):
        self.muts.append({'start': a, 'end': b, 'new': new, 'what': what, 'line': node.lineno, 'func': '.'.join(self.func)})

    def visit_FunctionDef(self, node):
        if node.name in SKIP_FUNCS or node.name.startswith('prettyPrint'):
            return
        self.func.append(node.name)
        body = node.body
        if body and isinstance(body[0], ast.Expr) and isinstance(getattr(body[0], 'value', None), ast.Constant) and isinstance(body[0].value.value, str):
            body = body[1:]
        for st in body:
            self.visit(st)
        self.func.pop()

    def visit_ClassDef(self, node):
        self.func.append(node.name)
        for st in node.body:
            self.visit(st)
        self.func.pop()

    def visit_If(self, node):
        src = self.src[slice(*self.seg(node.test))]
        if src.strip() in ('LOG', 'debug.logger', 'logger'):
            return                                      # debug logging block
        if 'version_info' in src:
            # interpreter-version switch: only the branch this interpreter takes is live, the test itself is not mutated
            try:
                import sys as _sys
                import platform as _pf
                live = node.body if eval(src, {'sys': _sys, 'version_info': _sys.version_info, 'platform': _pf,
                                                'implementation': _pf.python_implementation()}) else node.orelse
            except Exception:
                live = node.body + node.orelse
            for st in live:
                self.visit(st)
            return
        if self.func:
            a, b = self.seg(node.test)
            if isinstance(node.test, ast.UnaryOp) and isinstance(node.test.op, ast.Not):
                oa, ob = self.seg(node.test.operand)
                self.add(a, b, self.src[oa:ob], 'if-test: drop not', node)
            else:
                self.add(a, b, 'not (%s)' % self.src[a:b], 'if-test: negate', node)
        self.generic_visit(node)

    def visit_Raise(self, node):
        return                                          # messages / exception construction

    def visit_Compare(self, node):
        if self.func and len(node.ops) == 1 and type(node.ops[0]) in CMP:
            la, lb = self.seg(node.left)
            ra, rb = self.seg(node.comparators[0])
            mid = self.src[lb:ra]
            tok = CMP_SRC[type(node.ops[0])]
            if mid.strip() == tok:
                self.add(lb, ra, mid.replace(tok, CMP[type(node.ops[0])]), 'compare %s -> %s' % (tok, CMP[type(node.ops[0])]), node)
        self.generic_visit(node)

    def visit_BoolOp(self, node):
        if self.func and len(node.values) == 2:
            a = self.seg(node.values[0])[1]
            b = self.seg(node.values[1])[0]
            mid = self.src[a:b]
            tok = 'and' if isinstance(node.op, ast.And) else 'or'
            if mid.strip().strip('()').strip() == tok:
                self.add(a, b, mid.replace(tok, 'or' if tok == 'and' else 'and'), 'boolop %s swapped' % tok, node)
        self.generic_visit(node)

    def visit_Constant(self, node):
        if not self.func:
            return
        a, b = self.seg(node)
        v = node.value
        if isinstance(v, bool):
            self.add(a, b, repr(not v), 'constant %r -> %r' % (v, not v), node)
        elif isinstance(v, int) and not isinstance(v, bool):
            txt = self.src[a:b]
            for d in (1, -1):
                nv = v + d
                new = hex(nv) if txt.lower().startswith('0x') and nv >= 0 else repr(nv)
                self.add(a, b, new, 'constant %s -> %s' % (txt, new), node)

    def visit_BinOp(self, node):
        if self.func and isinstance(node.op, (ast.Add, ast.Sub)):
            a = self.seg(node.left)[1]
            b = self.seg(node.right)[0]
            mid = self.src[a:b]
            tok = '+' if isinstance(node.op, ast.Add) else '-'
            if mid.strip() == tok:
                self.add(a, b, mid.replace(tok, '-' if tok == '+' else '+'), 'binop %s swapped' % tok, node)
        if isinstance(node.op, ast.Mod) and isinstance(node.left, ast.Constant) and isinstance(node.left.value, str):
            return                                      # string formatting
        self.generic_visit(node)

    def visit_Break(self, node):
        if self.func:
            a, b = self.seg(node)
            self.add(a, b, 'pass', 'break dropped', node)

    def visit_Continue(self, node):
        if self.func:
            a, b = self.seg(node)
            self.add(a, b, 'pass', 'continue dropped', node)

    def visit_Expr(self, node):
        if self.func and isinstance(node.value, ast.Call):
            src = self.src[slice(*self.seg(node))]
            if src.startswith(('LOG(', 'logger(', 'debug.')):
                return
            if '\n' not in src:
                a, b = self.seg(node)
                self.add(a, b, 'pass', 'call dropped: %s' % src[:50], node)
                return
        self.generic_visit(node)


def gen(nper, seed):
    rnd = random.Random(seed)
    cands = []
    for f in FILES:
        p = os.path.join(REPO, f)
        if not os.path.exists(p):
            continue
        src = open(p).read()
        fd = Finder(src)
        fd.visit(ast.parse(src))
        muts = fd.muts
        rnd.shuffle(muts)
        kept = 0
        for m in muts:
            if kept >= nper:
                break
            new_src = src[:m['start']] + m['new'] + src[m['end']:]
            try:
                compile(new_src, f, 'exec')
            except SyntaxError:
                continue
            line_start = src.rfind('\n', 0, m['start']) + 1
            line_end = src.find('\n', m['end'])
            old_line = src[line_start:line_end]
            new_line = new_src[line_start:line_end + (len(m['new']) - (m['end'] - m['start']))]
            mid = 'a' + hashlib.sha1(('%s:%d:%s' % (f, m['start'], m['new'])).encode()).hexdigest()[:8]
            cands.append({'id': mid, 'file': f, 'start': m['start'], 'end': m['end'], 'new': m['new'], 'what': m['what'], 'line': m['line'],
                          'func': m['func'], 'old_line': old_line.strip()[:160], 'new_line': new_line.strip()[:160], 'properties': props_for(f)})
            kept += 1
    os.makedirs(OUT, exist_ok=True)
    head = subprocess.check_output('git -C %s rev-parse --short HEAD' % REPO, shell=True, text=True).strip()
    json.dump({'repo_head': head, 'seed': seed, 'candidates': cands}, open(os.path.join(OUT, 'candidates.json'), 'w'), indent=1)
    print('%d candidates over %d files at %s' % (len(cands), len(FILES), head))


def scratch(m):
    d = tempfile.mkdtemp(prefix='am_', dir='/tmp')
    subprocess.check_call('cd %s && git archive HEAD | tar -x -C %s' % (REPO, d), shell=True)
    p = os.path.join(d, m['file'])
    src = open(p).read()
    open(p, 'w').write(src[:m['start']] + m['new'] + src[m['end']:])
    return d


def suite():
    data = json.load(open(os.path.join(OUT, 'candidates.json')))

    def one(m):
        d = scratch(m)
        try:
            r = subprocess.run('cd %s && timeout 300 /venv/bin/python -m pytest -q -x -p no:cacheprovider 2>&1 | tail -1' % d, shell=True,
                               capture_output=True, text=True)
            return m['id'], '1149 passed' in r.stdout, r.stdout.strip()[-60:]
        finally:
            shutil.rmtree(d, ignore_errors=True)
    with ThreadPoolExecutor(14) as ex:
        res = list(ex.map(one, data['candidates']))
    alive = {i for i, ok, _t in res if ok}
    surv = [m for m in data['candidates'] if m['id'] in alive]
    json.dump({'repo_head': data['repo_head'], 'survivors': surv}, open(os.path.join(OUT, 'survivors.json'), 'w'), indent=1)
    print('%d of %d candidates survive the suite' % (len(surv), len(data['candidates'])))


ORDER = {        # checks most likely to notice a change in a file first (at most six are run)
    'pyasn1/codec/ber/decoder.py': ['C09', 'C01', 'C08', 'C06', 'C10', 'C15', 'C16', 'C18'],
    'pyasn1/codec/ber/encoder.py': ['C03', 'C01', 'C04', 'C17', 'C18', 'C02'],
    'pyasn1/codec/cer/encoder.py': ['C03', 'C02', 'C04', 'C20', 'C17', 'C18'],
    'pyasn1/codec/der/encoder.py': ['C03', 'C02', 'C04', 'C17'],
    'pyasn1/codec/cer/decoder.py': ['C15', 'C02', 'C09'],
    'pyasn1/codec/der/decoder.py': ['C15', 'C02'],
    'pyasn1/codec/streaming.py': ['C05', 'C06', 'C07', 'C11', 'C08'],
    'pyasn1/codec/native/encoder.py': ['C17', 'C12'],
    'pyasn1/codec/native/decoder.py': ['C17', 'C12'],
    'pyasn1/type/univ.py': ['C19', 'C04', 'C01', 'C14', 'C12', 'C17'],
    'pyasn1/type/base.py': ['C14', 'C19', 'C12', 'C01'],
    'pyasn1/type/constraint.py': ['C14', 'C10'],
    'pyasn1/type/tag.py': ['C13', 'C03', 'C01'],
    'pyasn1/type/tagmap.py': ['C13', 'C09', 'C01', 'C10'],
    'pyasn1/type/namedtype.py': ['C01', 'C09', 'C18', 'C10', 'C03', 'C19'],
    'pyasn1/type/opentype.py': ['C18'],
    'pyasn1/type/useful.py': ['C20', 'C03', 'C01'],
    'pyasn1/type/char.py': ['C03', 'C01', 'C16', 'C14'],
    'pyasn1/compat/integer.py': ['C03', 'C01', 'C09'],
}


def kill(maxn):
    data = json.load(open(os.path.join(OUT, 'survivors.json')))
    for m in data['survivors']:
        m['properties'] = ORDER.get(m['file'], m['properties'])[:6]
    path = os.path.join(OUT, 'kill.json')
    done = json.load(open(path)) if os.path.exists(path) else {}

    def one(m):
        d = scratch(m)
        out = {}
        try:
            for p in m['properties']:
                r = subprocess.run('PV_REPO=%s VERIF_NPROC=4 timeout 900 %s/check %s --no-evidence 2>&1' % (d, VERIF, p), shell=True,
                                   capture_output=True, text=True)
                v = [l for l in r.stdout.splitlines() if l.startswith('violation:')]
                out[p] = {'exit': r.returncode, 'first': v[0][:160] if v else None}
                if r.returncode == 1:
                    break
        finally:
            shutil.rmtree(d, ignore_errors=True)
        return m['id'], out
    todo = [m for m in data['survivors'] if m['id'] not in done][:maxn]
    with ThreadPoolExecutor(int(os.environ.get("AM_WORKERS", "4"))) as ex:
        for mid, out in ex.map(one, todo):
            done[mid] = out
            json.dump(done, open(path, 'w'), indent=1)
            print(mid, {p: r['exit'] for p, r in out.items()}, flush=True)


if __name__ == '__main__':
    cmd = sys.argv[1]
    if cmd == 'gen':
        gen(int(sys.argv[2]), int(sys.argv[3]))
    elif cmd == 'suite':
        suite()
    elif cmd == 'kill':
        kill(int(sys.argv[2]) if len(sys.argv) > 2 else 10 ** 6)


def try_one(mid, props):
    """automutate.py try <mutant id> <PROP>...: run the given checks against one survivor."""
    data = json.load(open(os.path.join(OUT, 'survivors.json')))
    m = [x for x in data['survivors'] if x['id'] == mid][0]
    d = scratch(m)
    try:
        for p in props:
            r = subprocess.run('PV_REPO=%s timeout 900 %s/check %s --no-evidence 2>&1' % (d, VERIF, p), shell=True, capture_output=True, text=True)
            v = [l for l in r.stdout.splitlines() if l.startswith('violation:')]
            print(mid, p, 'exit', r.returncode, (v[0][:200] if v else r.stdout.splitlines()[-1][:160] if r.stdout else ''))
    finally:
        shutil.rmtree(d, ignore_errors=True)


if __name__ == '__main__' and sys.argv[1] == 'try':
    try_one(sys.argv[2], sys.argv[3:])
