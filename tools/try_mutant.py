#!/venv/bin/python
"""Dev-time: apply one mutant of mutants/candidates.json (textual replacement) to a scratch worktree of /repo HEAD,
optionally run the suite, and run the quick tier of the given checks.  usage: try_mutant.py <mutant-id-prefix> [--suite] <PROP>..."""
import json, os, subprocess, sys, tempfile
mid = sys.argv[1]
args = sys.argv[2:]
suite = '--suite' in args
props = [a for a in args if not a.startswith('--')]
ms = [m for m in json.load(open('/verif/mutants/candidates.json')) if m['id'].startswith(mid)]
assert len(ms) == 1, [m['id'] for m in ms]
m = ms[0]
wt = tempfile.mkdtemp(prefix='tm_', dir='/tmp'); os.rmdir(wt)
subprocess.check_call('git -C /repo worktree add --detach %s HEAD >/dev/null 2>&1' % wt, shell=True)
try:
    p = os.path.join(wt, m['file'])
    s = open(p).read()
    if s.count(m['old']) < 1:
        print('%s: pattern not found in current tree' % m['id']); sys.exit(3)
    open(p, 'w').write(s.replace(m['old'], m['new'], m.get('count', 1)))
    if suite:
        r = subprocess.run('/venv/bin/python -m pytest -q -p no:cacheprovider -x 2>&1 | tail -1', shell=True, cwd=wt, capture_output=True, text=True)
        print('%s suite: %s' % (m['id'], r.stdout.strip()))
    for pr in props:
        r = subprocess.run('PV_REPO=%s timeout 600 /verif/check %s --no-evidence 2>&1' % (wt, pr), shell=True, capture_output=True, text=True)
        lines = [l for l in r.stdout.splitlines() if l.startswith('violation:')]
        print('%s vs %s: exit %d  %s' % (m['id'], pr, r.returncode, (lines[0][:200] if lines else r.stdout.splitlines()[-1][:160] if r.stdout else '')))
finally:
    subprocess.call('git -C /repo worktree remove --force %s' % wt, shell=True)
