#!/venv/bin/python
"""Dev-time: verify a seeded change (patch.diff + demo.py) against the current /repo HEAD and file it under
/verif/seeded/<id>/.   usage: verify_seed.py <src-dir> <id> <property> ["what it needs"]"""
import json, os, shutil, subprocess, sys, tempfile

src, sid, prop = sys.argv[1], sys.argv[2], sys.argv[3]
needs = sys.argv[4] if len(sys.argv) > 4 else ''
wt = tempfile.mkdtemp(prefix='sv_', dir='/tmp')
os.rmdir(wt)
def sh(cmd, cwd=None):
    p = subprocess.run(("timeout 300 " + cmd) if not cmd.startswith("git") else cmd, shell=True, cwd=cwd, capture_output=True, text=True)
    return p.returncode, (p.stdout + p.stderr)
rc, out = sh('git -C /repo worktree add --detach %s HEAD' % wt)
assert rc == 0, out
res = {}
try:
    shutil.copy(os.path.join(src, 'demo.py'), os.path.join(wt, 'demo_seed.py'))
    rc, out = sh('/venv/bin/python demo_seed.py', wt); res['demo_pristine_rc'] = rc; res['demo_pristine_tail'] = out[-300:]
    rc, out = sh('git apply %s' % os.path.join(src, 'patch.diff'), wt); res['apply_rc'] = rc; res['apply_out'] = out[-300:]
    if rc == 0:
        rc, out = sh('/venv/bin/python -m pytest -q -p no:cacheprovider -x 2>&1 | tail -2', wt); res['tests_tail'] = out.strip()[-200:]
        res['tests_pass'] = '1149 passed' in out
        rc, out = sh('/venv/bin/python demo_seed.py', wt); res['demo_patched_rc'] = rc; res['demo_patched_tail'] = out[-400:]
finally:
    sh('git -C /repo worktree remove --force %s' % wt)
ok = res.get('demo_pristine_rc') == 0 and res.get('apply_rc') == 0 and res.get('tests_pass') and res.get('demo_patched_rc') == 1
print(sid, 'OK' if ok else 'REJECTED', json.dumps({k: v for k, v in res.items() if not k.endswith('tail') or not ok})[:700])
if ok:
    dst = os.path.join('/verif/seeded', sid)
    os.makedirs(dst, exist_ok=True)
    for f in ('patch.diff', 'demo.py', 'notes.md'):
        if os.path.exists(os.path.join(src, f)):
            if os.path.abspath(src) != os.path.abspath(dst):
                shutil.copy(os.path.join(src, f), dst)
    head = subprocess.check_output('git -C /repo rev-parse --short HEAD', shell=True, text=True).strip()
    json.dump({'id': sid, 'breaks_property': prop, 'needs_to_manifest': needs,
               'verified': {'repo_head': head, 'demo_on_unpatched_tree': 'exit 0 (PASS)', 'patch_applies': True,
                            'existing_suite_with_patch': res['tests_tail'], 'demo_on_patched_tree': 'exit 1 (FAIL)',
                            'how': 'tools/verify_seed.py: scratch worktree of /repo HEAD, python demo.py; git apply patch.diff; pytest; python demo.py'},
               'caught_by': []}, open(os.path.join(dst, 'meta.json'), 'w'), indent=1)
