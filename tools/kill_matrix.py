#!/venv/bin/python
"""Dev-time: for every seeded change, apply it to a scratch worktree of /repo HEAD, re-verify (suite green, demo fails), run the
quick tier of the given checks (default: the property the seed targets) against it and record the outcome in meta.json."""
import glob, json, os, subprocess, sys, tempfile
seeds = sorted(os.path.basename(d) for d in glob.glob('/verif/seeded/*') if os.path.isdir(d))
only = [a for a in sys.argv[1:] if not a.startswith('--')]
extra = [a[2:] for a in sys.argv[1:] if a.startswith('--C')]
def sh(cmd, cwd=None, t=900):
    p = subprocess.run('timeout %d %s' % (t, cmd), shell=True, cwd=cwd, capture_output=True, text=True)
    return p.returncode, p.stdout + p.stderr
shard = os.environ.get('KM_SHARD')          # "i/n": every n-th seed, starting with the i-th
for idx, sid in enumerate(seeds):
    if only and sid not in only:
        continue
    if shard and idx % int(shard.split('/')[1]) != int(shard.split('/')[0]):
        continue
    d = '/verif/seeded/' + sid
    meta = json.load(open(d + '/meta.json'))
    wt = tempfile.mkdtemp(prefix='km_', dir='/tmp'); os.rmdir(wt)
    sh('git -C /repo worktree add --detach %s HEAD' % wt)
    try:
        rc, out = sh('git apply %s/patch.diff' % d, wt)
        if rc != 0:
            print(sid, 'PATCH DOES NOT APPLY'); meta['verified']['patch_applies'] = False
            continue
        rc, out = sh('/venv/bin/python -m pytest -q -p no:cacheprovider 2>&1 | tail -1', wt)
        suite_ok = '1149 passed' in out
        open(os.path.join(wt, 'demo_seed.py'), 'w').write(open(d + '/demo.py').read())
        rc_demo, _ = sh('/venv/bin/python demo_seed.py', wt, 300)
        # (checks other than the target that caught the change before stay in the run)
        props = [meta['breaks_property']] + extra + [p for p in meta.get('caught_by', []) if p != meta['breaks_property'] and p not in extra]
        caught = {}
        for p in props:
            rc, out = sh('env PV_REPO=%s /verif/check %s --no-evidence' % (wt, p), None, 900)
            line = [l for l in out.splitlines() if l.startswith('violation:')]
            caught[p] = {'exit': rc, 'first_violation': line[0][:200] if line else None}
        head = subprocess.check_output('git -C /repo rev-parse --short HEAD', shell=True, text=True).strip()
        meta['verified'].update({'repo_head': head, 'existing_suite_with_patch': out.strip()[-40:] if False else ('1149 passed' if suite_ok else 'SUITE FAILS'),
                                 'demo_on_patched_tree': 'exit %d' % rc_demo})
        meta['caught_by'] = [p for p, r in caught.items() if r['exit'] == 1]
        meta['check_runs'] = caught
        json.dump(meta, open(d + '/meta.json', 'w'), indent=1)
        print(sid, 'suite', 'ok' if suite_ok else 'FAIL', 'demo', rc_demo, {p: r['exit'] for p, r in caught.items()})
    finally:
        sh('git -C /repo worktree remove --force %s' % wt)
