#!/venv/bin/python
"""Dev-time: take in per-module sub-agent output /tmp/w7/<Gnn>/out/{a,b}: the property is named on the first line of notes.md
("PROPERTY: Cnn"); the seed gets the next free letter of that property, is verified (tools/verify_seed.py) and run against the
target check (tools/kill_matrix.py).   usage: intake7.py G01 G02 ..."""
import os, re, subprocess, sys
W = os.environ.get('W', '/tmp/w7')
for g in sys.argv[1:]:
    for s in ('a', 'b'):
        src = os.path.join(W, g, 'out', s)
        if not os.path.exists(os.path.join(src, 'patch.diff')):
            print(g, s, 'no patch')
            continue
        first = open(os.path.join(src, 'notes.md')).read().lstrip().splitlines()[0]
        m = re.search(r'C(\d\d)', first)
        if not m:
            print(g, s, 'no PROPERTY line:', first[:80])
            continue
        prop = 'C' + m.group(1)
        letter = next(ch for ch in 'mnopqrstuvwxyz' if not os.path.isdir('/verif/seeded/%s%s' % (prop, ch)))
        sid = prop + letter
        out = subprocess.run(['/verif/tools/verify_seed.py', src, sid, prop, 'module group ' + g], capture_output=True, text=True)
        print(g, s, '->', out.stdout.strip()[:300])
        if os.path.isdir('/verif/seeded/' + sid):
            out = subprocess.run(['/verif/tools/kill_matrix.py', sid], capture_output=True, text=True)
            print('   ', out.stdout.strip().splitlines()[-1] if out.stdout.strip() else out.stderr[-200:])
