#!/venv/bin/python
"""Dev-time sensitivity driver: apply seeded/<id>/patch.diff (or a mutants/*.diff) to a scratch worktree of /repo
HEAD and run the quick tier of the given checks against it (PV_REPO).  usage: try_seed.py <seed-id|patch> <PROP>..."""
import os, subprocess, sys, tempfile
sid = sys.argv[1]
props = sys.argv[2:]
patch = sid if os.path.isfile(sid) else '/verif/seeded/%s/patch.diff' % sid
wt = tempfile.mkdtemp(prefix='ts_', dir='/tmp'); os.rmdir(wt)
subprocess.check_call('git -C /repo worktree add --detach %s HEAD >/dev/null 2>&1' % wt, shell=True)
try:
    if subprocess.call('git apply %s 2>/dev/null' % patch, shell=True, cwd=wt) != 0:
        subprocess.check_call('git apply --3way %s >/dev/null 2>&1' % patch, shell=True, cwd=wt)
    for p in props:
        r = subprocess.run('PV_REPO=%s timeout 600 /verif/check %s --no-evidence %s 2>&1' % (wt, p, os.environ.get('TRY_ARGS', '')),
                           shell=True, capture_output=True, text=True)
        lines = [l for l in r.stdout.splitlines() if l.startswith('violation:')]
        print('%s vs %s: exit %d  %s' % (os.path.basename(sid), p, r.returncode, (lines[0][:220] if lines else r.stdout.splitlines()[-1][:200] if r.stdout else '')))
finally:
    subprocess.call('git -C /repo worktree remove --force %s' % wt, shell=True)
