#!/bin/sh
# Offline setup: install hypothesis (and atheris for the C08 thorough tier) beside the repo's packages.
set -e
cd /verif
mkdir -p .deps evidence replays
if ! PYTHONPATH=/verif/.deps /venv/bin/python -c "import hypothesis" 2>/dev/null; then
  /venv/bin/pip install --quiet --no-index --find-links /opt/veriftools/wheels --target /verif/.deps hypothesis || true
fi
if ! PYTHONPATH=/verif/.deps /venv/bin/python -c "import atheris" 2>/dev/null; then
  /venv/bin/pip install --quiet --no-index --find-links /opt/veriftools/wheels --target /verif/.deps atheris || true
fi
PYTHONPATH=/verif/.deps /venv/bin/python -c "import hypothesis; print('hypothesis', hypothesis.__version__)"
