"""C06 - truncated input is reported as insufficient data at every cut point."""
import io

from pyasn1 import error

from pv.core import ir, gen, build, absval, lib, harness, x690, streams
from pv.core import findings as fz

PROP = 'C06'
LEVEL = 'fault_enumeration'
DESIGN_REF = 'DESIGN.md 4/C06'
RULE = ('Hypothesis draws (T, v) and a reference encoding e (DER, CER, BER indefinite / chunked / every choice point drawn); for '
        'EVERY cut point k in [0, |e|) the prefix e[:k] (classified "truncated" by the reference reader first) is presented as '
        'bytes, as io.BytesIO, and as a seekable and a non-seekable non-blocking stream that holds k octets (delivered at once, or in '
        'two bursts with idle polls in between) and is then closed; '
        'with the guiding type and, for self-describing T, without. Oracle: one-shot decode raises SubstrateUnderrunError (never '
        'a value, never another error); the streaming decoder yields only underrun objects while the stream is open and raises '
        'EndOfStreamError within 4 steps after the close. evaluations = number of (prefix, presentation, guided?) runs; '
        'non-trivial = the cut falls inside an identifier, a length, an end-of-octets marker or directly on an element boundary '
        'inside the encoding (not in the middle of primitive contents); distinct = distinct (e, k, presentation).')
RULE += (' ' + "Also: the open stream presented as an io.BytesIO subclass (the suite's own non-blocking idiom), and encodings longer than the caching wrapper's buffer cut beyond 8192 octets.")
ASSUMPTIONS = ['TLV encodings are prefix-free: no proper prefix of a valid encoding is a complete encoding (asserted with the '
               'reference reader for every prefix)']
SHARDS = {'quick': (16, 45), 'thorough': (16, 2000)}
BUDGET = {'quick': 100, 'thorough': 1500}
MIN_NONTRIVIAL = {'quick': 500, 'thorough': 5000}
CFG = {'long_str_pct': 0, 'max_depth': 2, 'max_comps': 3, 'many_elems_pct': 0}
TECHNIQUE = 'property-based generation of encodings + exhaustive enumeration of cut points (fault injection) on stream doubles'


def shards(tier):
    n, per = SHARDS[tier]
    return [{'examples': per, 'i': i} for i in range(n)]


def classify_cuts(e):
    """-> list (index k) of 'header' | 'after-length' | 'eoo' | 'boundary' | 'contents'."""
    kinds = ['contents'] * len(e)
    top, _ = x690.walk(e)
    for n in x690.nodes(top):
        if n.start < len(e) and n.start > 0:
            kinds[n.start] = 'boundary'
        for k in range(n.start + 1, n.hdr_end):
            kinds[k] = 'header'
        if n.hdr_end < len(e) and n.end > n.hdr_end and kinds[n.hdr_end] == 'contents':
            kinds[n.hdr_end] = 'after-length'
        if n.indefinite:
            if n.end - 2 < len(e):
                if kinds[n.end - 2] == 'contents':
                    kinds[n.end - 2] = 'boundary'
            if n.end - 1 < len(e):
                kinds[n.end - 1] = 'eoo'
    if e:
        kinds[0] = 'empty-input'
    return kinds


def selfdesc(T):
    return not any(m == 'I' for t in fz.type_nodes(T) for m, _c, _n in t.get('tags', ())) and 'ANY' not in ir.kinds_in(T)


def stream_run(codec, make, prefix, spec, first=None):
    """Feed prefix to an open non-blocking stream (in two bursts with idle polls in between when `first` is given), step the
    decoder, close, step again. -> (kind, message) or None."""
    st = make()
    st.feed_bytes(prefix if first is None else prefix[:first])
    try:
        it = iter(lib.DEC[codec].StreamingDecoder(st, asn1Spec=spec) if spec is not None else lib.DEC[codec].StreamingDecoder(st))
        if first is not None:
            for i in range(2):
                try:
                    x = next(it)
                except StopIteration:
                    return ('open-stop', 'iteration stopped after the first burst of %d octets (step %d)' % (first, i))
                except error.PyAsn1Error as ex:
                    return ('open-raises', 'open stream: raised %s after the first burst of %d octets' % (harness.exc_sig(ex), first))
                if not isinstance(x, error.SubstrateUnderrunError):
                    return ('open-yields', 'open stream: yielded %r after the first burst of %d octets' % (type(x).__name__, first))
            st.feed_bytes(prefix[first:])
        for i in range(3):
            try:
                x = next(it)
            except StopIteration:
                return ('open-stop', 'iteration stopped while the stream is open and the encoding is incomplete (step %d)' % i)
            except error.PyAsn1Error as ex:
                return ('open-raises', 'open stream: raised %s at step %d' % (harness.exc_sig(ex), i))
            if not isinstance(x, error.SubstrateUnderrunError):
                return ('open-yields', 'open stream: yielded %r instead of an underrun at step %d' % (type(x).__name__, i))
        st.finish()
        for i in range(4):
            try:
                x = next(it)
            except error.EndOfStreamError:
                return None
            except StopIteration:
                return ('closed-stop', 'closed stream: iteration stopped without EndOfStreamError')
            except error.PyAsn1Error as ex:
                return ('closed-raises', 'closed stream: raised %s instead of EndOfStreamError' % harness.exc_sig(ex))
            if not isinstance(x, error.SubstrateUnderrunError):
                return ('closed-yields', 'closed stream: yielded %r' % type(x).__name__)
        return ('closed-livelock', 'closed stream: still reporting underrun 4 steps after the close')
    except Exception as ex:
        return ('leak', 'leaked %s' % harness.exc_sig(ex))


def run_case(case, col=None):
    T, e, codec = case['T'], case['enc'], case['codec']
    fails = []

    def F(sub, kind, msg, sig='', obs=None):
        fails.append({'sub': sub, 'kind': kind, 'sig': sig, 'msg': msg, 'obs': obs})

    sch = build.schema(T)
    specs = [('guided', sch)] + ([('schemaless', None)] if selfdesc(T) else [])
    # precondition: the complete encoding decodes (otherwise the case belongs to C09)
    for sname, spec in list(specs):
        d0 = lib.decode(codec, e, spec)
        if not (d0.ok and d0.rest == b''):
            specs.remove((sname, spec))
            if col is not None:
                col.exclude('precondition: the complete encoding is not decoded (C09 / C16)')
    kinds = classify_cuts(e)
    ks = range(len(e)) if case.get('only') is None else [case['only']]
    for k in ks:
        prefix = e[:k]
        try:
            x690.read(T, prefix)
            raise harness.HarnessError('a proper prefix is a complete encoding?! %s' % prefix.hex())
        except x690.RefError as r:
            if r.kind != 'truncated':
                raise harness.HarnessError('reference reader calls the prefix %s: %s of %s' % (r.kind, prefix.hex()[:80], e.hex()[:80]))
        for sname, spec in specs:
            nontriv = kinds[k] != 'contents'
            pres = []
            # one-shot on bytes and on BytesIO
            for pname, sub in (('bytes', prefix), ('BytesIO', io.BytesIO(prefix))):
                d = lib.decode(codec, sub, spec)
                if d.ok:
                    res = ('value', 'returned a value for the prefix')
                elif d.status == 'leak':
                    res = ('leak', d.brief())
                elif not isinstance(d.exc, error.SubstrateUnderrunError):
                    res = ('malformed', 'reported %s' % d.brief())
                else:
                    res = None
                pres.append(('oneshot-%s-%s' % (pname, sname), res))
            # one-shot on a non-blocking stream that is still open: nothing but "insufficient data" is known
            op = streams.PipeFeed()
            op.feed_bytes(prefix)
            d = lib.decode(codec, op, spec)
            if d.ok:
                res = ('value', 'returned a value for the prefix')
            elif d.status == 'leak':
                res = ('leak', d.brief())
            elif not isinstance(d.exc, error.SubstrateUnderrunError):
                res = ('malformed', 'reported %s' % d.brief())
            else:
                res = None
            pres.append(('oneshot-openpipe-%s' % sname, res))
            for pname, make in (('seekable', streams.SeekableFeed), ('pipe', streams.PipeFeed), ('bytesio', streams.BytesIOFeed)):
                pres.append(('stream-%s-%s' % (pname, sname), stream_run(codec, make, prefix, spec)))
                # the same prefix arriving in two bursts with idle polls in between
                for j in sorted(set(x for x in (k // 2, k - 1) if 0 < x < k)):
                    pres.append(('stream-%s2-%s' % (pname, sname), stream_run(codec, make, prefix, spec, first=j)))
            for sub, res in pres:
                if col is not None:
                    col.case(e + bytes([k % 256, k // 256]) + sub.encode(), nontriv, ['cut:' + kinds[k], sub.split('-')[0] + '-' + sub.split('-')[1]],
                             sample={'type': ir.show_type(T), 'encoding': e.hex()[:120], 'cut': k, 'cut_kind': kinds[k], 'presentation': sub})
                if res is not None:
                    F(sub, res[0], '%s | k=%d (%s) of %s' % (res[1], k, kinds[k], e.hex()[:120]), sig=kinds[k], obs={'k': k, 'cut': kinds[k]})
    return fails


def replay(case):
    if case.get('long'):
        return [dict(f, case=ir.to_jsonable(case), obs=ir.to_jsonable(f.get('obs'))) for f in run_long(case)]
    return _replay(case)


def _replay(case):
    return [dict(f, case=ir.to_jsonable(case), obs=ir.to_jsonable(f.get('obs'))) for f in run_case(case)]


def long_case(n_elems, elem_len, cuts):
    """An encoding longer than the read-ahead buffer of the caching wrapper: SEQUENCE OF OCTET STRING in the indefinite form
    (primitive elements, so that known finding F09 - definite-length nested elements behind the wrapper - stays out), cut at
    a few points beyond 8192 octets."""
    T = ir.mk('SEQUENCEOF', of=ir.mk('OCTETSTRING'))
    v = [bytes([i % 251]) * elem_len for i in range(n_elems)]
    return {'T': T, 'enc': x690.cer(T, v), 'codec': 'BER', 'form': 'CER', 'long': True, 'cuts': cuts}


def run_long(case, col=None):
    T, e, codec = case['T'], case['enc'], case['codec']
    fails = []
    sch = build.schema(T)
    kinds = None
    for k in case['cuts']:
        k = min(max(k, 1), len(e) - 1)
        prefix = e[:k]
        pres = []
        op = streams.PipeFeed()
        op.feed_bytes(prefix)
        d = lib.decode(codec, op, sch)
        res = None
        if d.ok:
            res = ('value', 'returned a value for the prefix')
        elif d.status == 'leak':
            res = ('leak', d.brief())
        elif not isinstance(d.exc, error.SubstrateUnderrunError):
            res = ('malformed', 'reported %s' % d.brief())
        pres.append(('long-oneshot-openpipe-guided', res))
        for pname, make in (('seekable', streams.SeekableFeed), ('pipe', streams.PipeFeed)):
            pres.append(('long-stream-%s-guided' % pname, stream_run(codec, make, prefix, sch)))
            pres.append(('long-stream-%s2-guided' % pname, stream_run(codec, make, prefix, sch, first=8190)))
        for sub, res in pres:
            if col is not None:
                col.case(e[:64] + repr((len(e), k, sub)).encode(), True, ['long', sub.split('-')[1] + '-' + sub.split('-')[2]],
                         sample={'type': ir.show_type(T), 'encoding_octets': len(e), 'cut': k, 'presentation': sub})
            if res is not None:
                fails.append({'sub': sub, 'kind': res[0], 'sig': 'long', 'msg': '%s | k=%d of a %d-octet encoding' % (res[1], k, len(e)), 'obs': {'k': k, 'cut': 'long'}})
    return fails


def run_shard(desc, seed, tier, col):
    from hypothesis import strategies as st

    def body(x):
        ev, lng = x
        if lng is not None:
            case = long_case(*lng)
            col.begin(case)
            for f in run_long(case, col):
                col.fail(f['sub'], f['kind'], f['msg'], dict(case, cuts=[f['obs']['k']]), sig=f['sig'], obs=f.get('obs'))
            return
        form = ev['forms'][0]
        case = {'T': ev['T'], 'enc': ev['encs'][0], 'codec': {'DER': 'DER', 'CER': 'CER'}.get(form, 'BER'), 'form': form}
        col.begin(case)
        for f in run_case(case, col):
            col.fail(f['sub'], f['kind'], f['msg'], dict(case, only=f['obs']['k']), sig=f['sig'], obs=f.get('obs'))

    longs = st.one_of(st.none(), st.none(), st.none(), st.none(), st.none(), st.none(), st.none(), st.none(), st.none(), st.none(), st.none(),
                      st.tuples(st.sampled_from([300, 600]), st.sampled_from([30, 60]),
                                st.lists(st.integers(8193, 19000), min_size=3, max_size=8)))
    harness.run_given(st.tuples(gen.encoded_values(CFG, 1, 1), longs), body, seed, desc['examples'], col)


FINDINGS = {}
