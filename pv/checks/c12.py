"""C12 - codec calls are pure: no effect on schemas, inputs, configuration or each other."""
import zlib
import io
import threading
import sys

from pyasn1 import debug, error
from pyasn1.codec.native import encoder as nenc, decoder as ndec
from pyasn1.type import base as _base, univ

from pv.core import ir, gen, build, absval, lib, harness, x690, streams
from pv.core import findings as fz

PROP = 'C12'
LEVEL = 'exploration'
DESIGN_REF = 'DESIGN.md 4/C12'
RULE = ('Hypothesis draws a pool of 2..3 (T, v) pairs whose schema objects are shared by everything that follows, and a history of '
        'codec calls over the pool: BER (all modes) / CER / DER / native encoding of value objects and of plain Python values '
        'with asn1Spec, one-shot and streaming decoding of valid and damaged encodings, streaming decoding of several values '
        'through one decoder object. Oracles: (1) every encoding leaves the semantic snapshot of the value (abstract content, DER, '
        'isValue, type description) unchanged and repeats byte for byte; (2) decoding leaves the snapshot of the guiding type '
        'unchanged, and after mutating every mutable node of one decoded result a second result and the guiding type are '
        'unchanged; (3) each call of the history returns what the same call returned before any history and what it returns on '
        'freshly built schema objects; (4) k suspended StreamingDecoders advanced step by step in a drawn interleaving each yield '
        'what they yield alone; (5) the history run concurrently on 4 threads gives every thread the sequential results (sampled '
        'schedules); (6) with debug logging switched on every outcome is the same. Non-trivial = histories of >= 3 calls on one '
        'schema / interleavings that switch inside an element; distinct = distinct (pool, history).')
RULE += (' ' + "Also: ANY in the pool types, a call with the caller's own tagMap=, module-level codec tables snapshotted, empty schemaless containers of two results compared for sharing, DEFAULT members of one result read and emptied before another result is looked at. Also: a bulk run - eight threads each encoding and decoding some nine hundred distinct small values of their own (integers, bit strings, OIDs) at once, every result compared with the sequential one; half of the threaded histories run with debug logging on; the debug arm snapshots value and guiding type around every call; results of native.decode (DEFAULT members missing from the mapping) are mutated like those of the BER decoders. One pool in three holds its first type twice: as drawn, and with string leaves built with the documented encoding= option (one class in use with two codecs; expected encodings come from the reference with the leaf's codec).")
ASSUMPTIONS = ['thread schedules are sampled (sys.setswitchinterval(1e-6)), not controlled: this sub-check can expose a race, it '
               'cannot show absence']
SHARDS = {'quick': (16, 120), 'thorough': (16, 2500)}
BUDGET = {'quick': 100, 'thorough': 1500}
MIN_NONTRIVIAL = {'quick': 300, 'thorough': 5000}
CFG = {'long_str_pct': 0, 'max_depth': 3, 'any': True, 'real10_pct': 0, 'max_comps': 3, 'constructed_default_pct': 35, 'many_elems_pct': 0}


def shards(tier):
    n, per = SHARDS[tier]
    return [{'examples': per, 'i': i} for i in range(n)]


# ------------------------------------------------------------------ snapshots

def type_desc(o):
    try:
        return o.prettyPrintType()
    except Exception as e:
        return 'prettyPrintType raises %s' % type(e).__name__


def presence(T, obj, depth=0):
    """Which slots of a value object hold something, read without instantiating anything (a never-set DEFAULT component and
    one set to its default value encode alike but print, compare and iterate differently)."""
    k = T['k']
    try:
        if depth > 6 or obj is None or not hasattr(obj, 'isValue'):
            return None
        if k in ir.RECORD_KINDS:
            out = []
            for i, c in enumerate(T['comps']):
                x = obj.getComponentByPosition(i, default=None, instantiate=False)
                out.append(None if x is None else (bool(x.isValue), presence(c['t'], x, depth + 1)))
            return tuple(out)
        if k in ir.OF_KINDS:
            if not obj.isValue:
                return 'schema'
            return tuple(presence(T['of'], obj.getComponentByPosition(i, default=None, instantiate=False), depth + 1) for i in range(len(obj)))
        if k == 'CHOICE':
            if not obj.isValue:
                return 'schema'
            nm = obj.getName()
            alt = [a for a in T['alts'] if a['name'] == nm][0]
            return (nm, presence(alt['t'], obj.getComponent(), depth + 1))
        return bool(obj.isValue)
    except Exception as e:
        return 'raises:' + type(e).__name__


def behaviour(obj, twin):
    """Printing and comparison behaviour of a value object (twin: an identically built, untouched object)."""
    out = []
    for fn in (lambda: obj.prettyPrint(), lambda: obj == twin, lambda: twin == obj, lambda: obj != twin, lambda: len(obj), lambda: hash(obj) and 0):
        try:
            out.append(fn())
        except TypeError:
            out.append('n/a')
        except Exception as e:
            out.append('raises:' + type(e).__name__)
    return tuple(out)


def snapshot(T, obj, sch=None):
    """Semantic snapshot of a value / schema object (no instantiating access)."""
    try:
        content = ir.jdump(ir.canon(T, absval.absval(T, obj, sch, check_type=False)))
    except absval.Shape as e:
        content = 'shape: ' + str(e)[:80]
    except Exception as e:
        content = 'raises: ' + type(e).__name__
    try:
        isv = bool(obj.isValue)
    except Exception as e:
        isv = 'raises:' + type(e).__name__
    derived = ''
    if isinstance(obj, _base.SimpleAsn1Type):
        # (what objects made from this one inherit: clone() without arguments of a value is the object itself, so ask for a copy
        # with the same initialiser - it must carry the same tags and constraints)
        try:
            c = obj.clone(obj._value) if isv is True else obj.clone()
            derived = repr(c.tagSet) + repr(c.subtypeSpec)
        except Exception as e:
            derived = 'raises:' + type(e).__name__
    return (content, isv, type_desc(obj), repr(obj.tagSet) + derived, repr(getattr(obj, 'subtypeSpec', None)), presence(T, obj))


def enc_outcome(fn):
    try:
        r = fn()
        return ('ok', r if isinstance(r, (bytes, bytearray)) else repr(r)[:400])
    except error.PyAsn1Error as e:
        return ('PyAsn1Error',)
    except Exception as e:
        return ('leak:' + type(e).__name__,)


def dec_outcome(T, sch, fn):
    try:
        r = fn()
    except error.PyAsn1Error as e:
        return ('underrun',) if isinstance(e, error.SubstrateUnderrunError) else ('PyAsn1Error',)
    except Exception as e:
        return ('leak:' + type(e).__name__,)
    if isinstance(r, tuple):
        v, rest = r
        return ('ok', snapshot(T, v, sch)[:2], bytes(rest))
    return ('ok', [snapshot(T, x, sch)[:2] if isinstance(x, _base.Asn1Item) else repr(x)[:40] for x in r])


# ------------------------------------------------------------------ calls of a history

CALLS = ['enc-BER', 'enc-BER-indef', 'enc-BER-chunk', 'enc-CER', 'enc-DER', 'enc-native', 'py-BER', 'py-CER', 'py-DER',
         'dec-BER', 'dec-CER', 'dec-DER', 'dec-bad', 'stream', 'stream2', 'native-rt', 'dec-tagmap']


class Pool(object):
    def __init__(self, items):
        """items: [(T, v)]"""
        self.items = items
        # entries of the same type share ONE schema object, as values of one module-level type do in a program
        cache = {}
        self.sch = [cache.setdefault(ir.jdump(T), build.schema(T)) for T, _v in items]
        self.obj = [build.value_from(s, T, v) for s, (T, v) in zip(self.sch, items)]
        self.der = [x690.der(T, v) for T, v in items]
        self.cer = [x690.cer(T, v) for T, v in items]
        self.ber = [x690.ber(T, v, x690.Fixed(indef=True, chunk=2)) for T, v in items]
        self.py = []
        for o in self.obj:
            try:
                self.py.append(nenc.encode(o))
            except Exception:
                self.py.append(None)

    def call(self, name, i, arg=0):
        T, v = self.items[i]
        sch, obj = self.sch[i], self.obj[i]
        if name == 'enc-BER':
            return enc_outcome(lambda: lib.ENC['BER'].encode(obj))
        if name == 'enc-BER-indef':
            return enc_outcome(lambda: lib.ENC['BER'].encode(obj, defMode=False))
        if name == 'enc-BER-chunk':
            return enc_outcome(lambda: lib.ENC['BER'].encode(obj, defMode=bool(arg % 2), maxChunkSize=1 + arg % 3))
        if name == 'enc-CER':
            return enc_outcome(lambda: lib.ENC['CER'].encode(obj))
        if name == 'enc-DER':
            return enc_outcome(lambda: lib.ENC['DER'].encode(obj))
        if name == 'enc-native':
            return enc_outcome(lambda: nenc.encode(obj))
        if name.startswith('py-'):
            py = self.py[i]
            if py is None:
                return ('skipped',)
            return enc_outcome(lambda: lib.ENC[name[3:]].encode(py, asn1Spec=sch))
        if name == 'dec-BER':
            return dec_outcome(T, sch, lambda: lib.DEC['BER'].decode(self.ber[i], asn1Spec=sch))
        if name == 'dec-CER':
            return dec_outcome(T, sch, lambda: lib.DEC['CER'].decode(self.cer[i], asn1Spec=sch))
        if name == 'dec-DER':
            return dec_outcome(T, sch, lambda: lib.DEC['DER'].decode(self.der[i] + b'\x05\x00', asn1Spec=sch))
        if name == 'dec-bad':
            b = self.der[i]
            bad = b[:max(1, len(b) - 1 - arg % 3)] if arg % 2 else bytes([b[0] ^ 0x20]) + b[1:]
            return dec_outcome(T, sch, lambda: lib.DEC['BER'].decode(bad, asn1Spec=sch))
        if name == 'stream':
            return dec_outcome(T, sch, lambda: [x for x in lib.DEC['BER'].StreamingDecoder(io.BytesIO(self.der[i] + self.ber[i] + self.der[i]), asn1Spec=sch)])
        if name == 'stream2':
            # several values through one decoder object must come out as each does alone
            return dec_outcome(T, sch, lambda: [x for x in lib.DEC['DER'].StreamingDecoder(io.BytesIO(self.der[i] * 3), asn1Spec=sch)])
        if name == 'dec-tagmap':
            # a call that brings its own tag map (the documented tagMap= option), in which two payload decoders are replaced by
            # ones that refuse everything: whatever it does must stay inside that call
            from pyasn1.codec.ber import decoder as _bd

            class _Refuse(_bd.IntegerPayloadDecoder):
                def valueDecoder(self, *a, **kw):
                    raise error.PyAsn1Error('refused by the custom tag map')
                    yield None
            custom = dict(_bd.TAG_MAP)
            custom[univ.Integer.tagSet] = _Refuse()
            custom[univ.OctetString.tagSet] = _Refuse()
            custom[univ.Boolean.tagSet] = _Refuse()
            return dec_outcome(T, sch, lambda: lib.DEC['BER'].decode(self.der[i], tagMap=custom))
        if name == 'native-rt':
            py = self.py[i]
            if py is None:
                return ('skipped',)
            return dec_outcome(T, sch, lambda: [ndec.decode(py, asn1Spec=sch)])
        raise ValueError(name)


class NullPrinter(object):
    def __call__(self, msg):
        pass


def with_debug(fn):
    try:
        debug.setLogger(debug.Debug('all', printer=NullPrinter()))
        return fn()
    finally:
        debug.setLogger(None)


def _containers(obj, acc=None, depth=0):
    """ids of all constructed objects reachable from a decoded value."""
    acc = set() if acc is None else acc
    if depth > 8 or not isinstance(obj, _base.ConstructedAsn1Type):
        return acc
    acc.add(id(obj))
    try:
        comps = obj.components if not isinstance(obj, univ.Choice) else [obj.getComponent()]
    except Exception:
        comps = []
    for c in comps:
        _containers(c, acc, depth + 1)
    return acc


def _empty_all(obj, depth=0):
    if depth > 8 or not isinstance(obj, _base.ConstructedAsn1Type):
        return
    try:
        comps = list(obj.components) if not isinstance(obj, univ.Choice) else [obj.getComponent()]
    except Exception:
        comps = []
    for c in comps:
        _empty_all(c, depth + 1)
    try:
        if isinstance(obj, (univ.SequenceOf, univ.SetOf)):
            obj.append(univ.Integer(424242))
        else:
            obj.clear()
    except Exception:
        pass


def _native(obj):
    try:
        return repr(nenc.encode(obj))
    except Exception as e:
        return 'raises:' + type(e).__name__


def strip_defaults(T, py):
    """The Python tree without the keys of DEFAULT members (they may simply be left out of a mapping)."""
    k = T['k']
    if k in ir.RECORD_KINDS and hasattr(py, 'items'):
        by = {c['name']: c for c in T['comps']}
        return type(py)((n, strip_defaults(by[n]['t'], x)) for n, x in py.items() if n in by and by[n]['p'] != 'def')
    if k in ir.OF_KINDS and isinstance(py, (list, tuple)):
        return [strip_defaults(T['of'], x) for x in py]
    if k == 'CHOICE' and hasattr(py, 'items'):
        by = {a['name']: a['t'] for a in T['alts']}
        return type(py)((n, strip_defaults(by[n], x) if n in by else x) for n, x in py.items())
    return py


def mutate_all(T, obj):
    """Change every mutable node of a decoded result (used to show that results share nothing)."""
    try:
        k = T['k']
        if k in ir.RECORD_KINDS:
            for idx, c in enumerate(T['comps']):
                comp = obj.getComponentByPosition(idx, default=None, instantiate=False)
                if (comp is None or comp is _base.noValue) and c['p'] == 'def':
                    comp = obj.getComponentByPosition(idx)      # the documented way to read a DEFAULT that was left out
                if comp is not None and comp is not _base.noValue:
                    mutate_all(c['t'], comp)
            obj.clear()
        elif k in ir.OF_KINDS:
            for i in range(len(obj)):
                mutate_all(T['of'], obj.getComponentByPosition(i, instantiate=False))
            obj.clear()
        elif k == 'CHOICE':
            for a in T['alts']:
                comp = obj.getComponentByName(a['name'], default=None, instantiate=False)
                if comp is not None and comp is not _base.noValue:
                    mutate_all(a['t'], comp)
            obj.clear()
    except Exception:
        pass


def _codec_tables():
    """The module-level codec tables (configuration shared by every call of the process): {(module, table): {key: codec object}}."""
    import importlib
    out = {}
    for mod in ('ber.decoder', 'cer.decoder', 'der.decoder', 'ber.encoder', 'cer.encoder', 'der.encoder', 'native.decoder', 'native.encoder'):
        m = importlib.import_module('pyasn1.codec.' + mod)
        for name in ('TAG_MAP', 'TYPE_MAP'):
            t = getattr(m, name, None)
            if isinstance(t, dict):
                out[(mod, name)] = (t, dict(t))
    return out


TABLES0 = _codec_tables()


def tables_changed():
    """-> list of (module.table, key) whose entry differs from what it was at start-up; the tables are put back."""
    diff = []
    for (mod, name), (live, saved) in TABLES0.items():
        if live.keys() != saved.keys() or any(live[k] is not saved[k] for k in saved):
            for k in set(live) | set(saved):
                if live.get(k) is not saved.get(k):
                    diff.append(('%s.%s' % (mod, name), str(k)[:60], type(live.get(k)).__name__))
            live.clear()
            live.update(saved)
    return diff


def run_case(case):
    fails = _run_case(case)
    diff = tables_changed()
    if diff:
        fails.append({'sub': 'configuration', 'kind': 'codec-tables', 'sig': diff[0][0], 'obs': None,
                      'msg': 'the module-level codec tables were changed by the calls of this history: %s' % (diff[:4],)})
    return fails


def _run_case(case):
    fails = []

    def F(sub, kind, msg, sig=''):
        fails.append({'sub': sub, 'kind': kind, 'sig': sig, 'msg': msg, 'obs': None})

    items = [(T, v) for T, v in case['pool']]
    pool = Pool(items)
    desc = [ir.show_type(T)[:80] for T, _v in items]
    # ---- (1) encoding leaves the value alone and repeats
    for i, (T, v) in enumerate(items):
        # every encoder gets an untouched object (an earlier call must not hide what a later one does), a twin stays untouched
        # throughout; the DER comparison comes after the snapshots because it is an encoder call itself
        twin = build.value_from(pool.sch[i], T, v)
        d0 = lib.encode('DER', build.value_from(pool.sch[i], T, v))
        for name in CALLS[:9]:
            if name.startswith('enc-'):
                pool.obj[i] = build.value_from(pool.sch[i], T, v)
            s0 = snapshot(T, pool.obj[i], pool.sch[i])
            b0 = behaviour(pool.obj[i], twin)
            g0 = snapshot(T, pool.sch[i])
            a = pool.call(name, i, 1)
            s1 = snapshot(T, pool.obj[i], pool.sch[i])
            b1 = behaviour(pool.obj[i], twin)
            g1 = snapshot(T, pool.sch[i])
            if g1 != g0:
                dif = [n for n, (x, y) in zip(('content', 'isValue', 'type', 'tagSet', 'subtypeSpec', 'slots'), zip(g0, g1)) if x != y]
                F('encode-mutates-schema', name, '%s changed the guiding type / schema object (%s): %s -> %s | %s' % (
                    name, ','.join(dif), str([g0[0], g0[5]])[:120], str([g1[0], g1[5]])[:120], desc[i]))
            b = pool.call(name, i, 1)
            if a != b:
                F('encode-repeat', name, '%s twice on the same value gives %s then %s | %s' % (name, str(a)[:80], str(b)[:80], desc[i]))
            if s1 != s0:
                dif = [n for n, (x, y) in zip(('content', 'isValue', 'type', 'tagSet', 'subtypeSpec', 'slots'), zip(s0, s1)) if x != y]
                F('encode-mutates', name, '%s changed the value being encoded (%s): %s -> %s | %s' % (
                    name, ','.join(dif), str([s0[0], s0[5]])[:120], str([s1[0], s1[5]])[:120], desc[i]))
            elif b1 != b0:
                F('encode-mutates', name, '%s changed how the value prints / compares: %s -> %s | %s' % (name, str(b0)[:120], str(b1)[:120], desc[i]))
            d1 = lib.encode('DER', pool.obj[i])
            if (d0.ok, d0.value) != (d1.ok, d1.value):
                F('encode-mutates', name, '%s changed the DER encoding of the value: %s -> %s | %s' % (name, str(d0.value)[:60], str(d1.value)[:60], desc[i]))
    # ---- (2) decoding leaves the guiding type alone; results share nothing
    for i, (T, v) in enumerate(items):
        sch = pool.sch[i]
        t0 = snapshot(T, sch)
        for codec, data in (('DER', pool.der[i]), ('CER', pool.cer[i]), ('BER', pool.ber[i])):
            d1 = lib.decode(codec, data, sch)
            d2 = lib.decode(codec, data, sch)
            t1 = snapshot(T, sch)
            if t1 != t0:
                F('decode-mutates-schema', codec, '%s.decode changed the guiding type object: %s -> %s | %s' % (codec.lower(), str(t0[:2])[:80], str(t1[:2])[:80], desc[i]))
                t0 = t1
            if d1.ok and d2.ok:
                if d1.value is d2.value or d1.value is sch:
                    F('decode-shares', codec, 'two decodings returned the same object / the guiding type itself | %s' % desc[i])
                    continue
                before = snapshot(T, d2.value, sch)
                nat0 = _native(d2.value)
                mutate_all(T, d1.value)
                if snapshot(T, d2.value, sch) != before:
                    F('decode-shares', codec, 'mutating one decoded result changed another one | %s' % desc[i])
                # components left to their DEFAULT are read through the schema: the native form shows them
                d3 = lib.decode(codec, data, sch)
                if _native(d2.value) != nat0 or (d3.ok and _native(d3.value) != nat0):
                    F('decode-shares', codec, 'mutating one decoded result (DEFAULT components read and emptied) changed what another / a '
                      'later result reports: %s -> %s / %s | %s' % (nat0[:80], _native(d2.value)[:80], _native(d3.value)[:80] if d3.ok else '-', desc[i]),
                      sig='defaults')
                if snapshot(T, sch) != t0:
                    F('decode-shares', codec, 'mutating a decoded result changed the guiding type | %s' % desc[i])
                    t0 = snapshot(T, sch)
    # ---- (2n) the same for the native decoder, given mappings from which the DEFAULT members are simply missing
    for i, (T, v) in enumerate(items):
        sch = pool.sch[i]
        py = pool.py[i]
        if py is None or 'ANY' in ir.kinds_in(T):
            continue
        py2 = strip_defaults(T, py)
        t0 = snapshot(T, sch)
        try:
            n1, n2 = ndec.decode(py2, asn1Spec=sch), ndec.decode(py2, asn1Spec=sch)
        except Exception:
            continue
        before, nat0 = snapshot(T, n2, sch), _native(n2)
        mutate_all(T, n1)
        if snapshot(T, n2, sch) != before or _native(n2) != nat0:
            F('decode-shares', 'native', 'mutating one result of native.decode (DEFAULT members read and emptied) changed another one: %s -> %s | %s' % (
                nat0[:80], _native(n2)[:80], desc[i]), sig='defaults')
        if snapshot(T, sch) != t0:
            F('decode-shares', 'native', 'mutating a result of native.decode changed the guiding type | %s' % desc[i], sig='schema')
    # ---- (2c) results of decoding WITHOUT a guiding type share no object with each other either (nor with the decoder's prototypes)
    for i, (T, v) in enumerate(items):
        if any(m == 'I' for t in fz.type_nodes(T) for m, _c, _n in t.get('tags', ())) or 'ANY' in ir.kinds_in(T):
            continue
        for codec, data in (('DER', pool.der[i]), ('BER', pool.ber[i])):
            d1, d2 = lib.decode(codec, data), lib.decode(codec, data)
            if not (d1.ok and d2.ok):
                continue
            shared = _containers(d1.value) & _containers(d2.value)
            if shared:
                F('decode-shares', codec + '-schemaless', 'two schemaless decodings of %s share %d container object(s) | %s' % (data.hex()[:40], len(shared), desc[i]),
                  sig='schemaless')
                continue
            before = lib.encode('DER', d2.value)
            _empty_all(d1.value)
            after = lib.encode('DER', d2.value)
            d3 = lib.decode(codec, data)
            e3 = lib.encode('DER', d3.value) if d3.ok else before
            if (before.ok, before.value) != (after.ok, after.value) or (before.ok, before.value) != (e3.ok, e3.value):
                F('decode-shares', codec + '-schemaless', 'emptying one schemaless result changed another / a later one | %s' % desc[i], sig='schemaless')
    # ---- (2b) several values through one decoder object come out as each does alone
    for i, (T, v) in enumerate(items):
        sch = pool.sch[i]
        alone = [dec_outcome(T, sch, lambda d=d: lib.DEC['BER'].decode(d, asn1Spec=sch)) for d in (pool.der[i], pool.ber[i], pool.der[i])]
        if all(a[0] == 'ok' and a[2] == b'' for a in alone):
            together = dec_outcome(T, sch, lambda: [x for x in lib.DEC['BER'].StreamingDecoder(io.BytesIO(pool.der[i] + pool.ber[i] + pool.der[i]), asn1Spec=sch)])
            want = ('ok', [a[1] for a in alone])
            if together != want:
                F('one-decoder-many-values', 'differs', 'StreamingDecoder over three encodings gives %s, each alone %s | %s' % (str(together)[:100], str(want)[:100], desc[i]))
    # ---- (3) history independence, (6) debug logging, fresh-object agreement
    hist = case['history']
    baseline = {}
    fresh = Pool(items)
    for name, i, arg in hist:
        key = (name, i, arg)
        if key not in baseline:
            baseline[key] = fresh.call(name, i, arg)
    seq = []
    for n, (name, i, arg) in enumerate(hist):
        r = pool.call(name, i, arg)
        seq.append(r)
        if r != baseline[(name, i, arg)]:
            F('history', name, 'call %d %s on pool[%d] returns %s after the history, %s on fresh objects | %s' % (
                n, name, i, str(r)[:90], str(baseline[(name, i, arg)])[:90], desc[i]))
    dbg_pool = Pool(items)
    for n, (name, i, arg) in enumerate(hist):
        T_i = items[i][0]
        s0 = (snapshot(T_i, dbg_pool.obj[i], dbg_pool.sch[i]), snapshot(T_i, dbg_pool.sch[i]))
        r = with_debug(lambda: dbg_pool.call(name, i, arg))
        s1 = (snapshot(T_i, dbg_pool.obj[i], dbg_pool.sch[i]), snapshot(T_i, dbg_pool.sch[i]))
        if r != baseline[(name, i, arg)]:
            F('debug', name, 'call %s on pool[%d] returns %s with debug logging on, %s with it off | %s' % (
                name, i, str(r)[:90], str(baseline[(name, i, arg)])[:90], desc[i]))
        if s1 != s0:
            F('debug-mutates', name, 'with debug logging on, %s changed the %s it was given: %s -> %s | %s' % (
                name, 'value' if s1[0] != s0[0] else 'guiding type', str(s0[0] if s1[0] != s0[0] else s0[1])[:100],
                str(s1[0] if s1[0] != s0[0] else s1[1])[:100], desc[i]))
    # ---- (4) interleaved suspended streaming decoders
    il = case.get('interleave')
    if il:
        fails += interleave(pool, items, il, desc)
    # ---- (5) threads
    if case.get('threads'):
        tp = Pool(items)
        results = [None] * 4
        errs = []

        def work(k):
            try:
                results[k] = [tp.call(name, i, arg) for name, i, arg in hist]
            except Exception as e:          # pragma: no cover
                errs.append(e)
        old = sys.getswitchinterval()
        sys.setswitchinterval(1e-6)
        dbg_on = len(hist) % 2 == 0          # half of the threaded runs have debug logging switched on as well
        if dbg_on:
            debug.setLogger(debug.Debug('all', printer=NullPrinter()))
        try:
            ths = [threading.Thread(target=work, args=(k,)) for k in range(4)]
            for t in ths:
                t.start()
            for t in ths:
                t.join(60)
        finally:
            sys.setswitchinterval(old)
            if dbg_on:
                debug.setLogger(None)
        for e_ in errs[:1]:
            F('threads', 'leak', 'a worker thread%s died with %s' % (' (debug logging on)' if dbg_on else '', harness.exc_sig(e_)), harness.exc_sig(e_))
        want = [baseline[(name, i, arg)] for name, i, arg in hist]
        for k in range(4):
            if results[k] is not None and results[k] != want:
                n = next(j for j, (a, b) in enumerate(zip(results[k], want)) if a != b)
                F('threads', hist[n][0], 'thread %d: call %d %s returns %s, sequentially %s' % (k, n, hist[n][0], str(results[k][n])[:90], str(want[n])[:90]))
                break
    return fails


def interleave(pool, items, il, desc):
    """il: {'chunks': [sizes per decoder], 'order': [decoder index per step]}"""
    fails = []
    k = len(il['chunks'])
    solo = []
    for j in range(k):
        i = j % len(items)
        data = pool.der[i] + pool.ber[i]
        solo.append(dec_outcome(items[i][0], pool.sch[i], lambda: [x for x in lib.DEC['BER'].StreamingDecoder(io.BytesIO(data), asn1Spec=pool.sch[i])]))
    decs = []
    for j in range(k):
        i = j % len(items)
        data = pool.der[i] + pool.ber[i]
        st = streams.PipeFeed() if j % 2 else streams.SeekableFeed()
        sizes = streams.cuts_to_sizes(len(data), il['chunks'][j]) if data else []
        decs.append({'i': i, 'data': data, 'st': st, 'sizes': sizes, 'pos': 0, 'n': 0, 'it': iter(lib.DEC['BER'].StreamingDecoder(st, asn1Spec=pool.sch[i])),
                     'out': [], 'done': None})

    def feed(dc):
        if dc['n'] < len(dc['sizes']):
            sz = dc['sizes'][dc['n']]
            dc['st'].feed_bytes(dc['data'][dc['pos']:dc['pos'] + sz])
            dc['pos'] += sz
            dc['n'] += 1
            if dc['n'] == len(dc['sizes']):
                dc['st'].finish()
        else:
            dc['st'].finish()
    for dc in decs:
        feed(dc)
    order = list(il['order']) + list(range(k)) * 400
    steps = 0
    for j in order:
        dc = decs[j % k]
        if dc['done'] is not None:
            if all(d['done'] is not None for d in decs):
                break
            continue
        steps += 1
        if steps > 4000:
            break
        try:
            x = next(dc['it'])
        except StopIteration:
            dc['done'] = 'stop'
            continue
        except error.PyAsn1Error as e:
            dc['done'] = 'underrun' if isinstance(e, error.SubstrateUnderrunError) else 'PyAsn1Error'
            continue
        except Exception as e:
            dc['done'] = 'leak:' + type(e).__name__
            continue
        if isinstance(x, error.SubstrateUnderrunError):
            feed(dc)
        elif isinstance(x, _base.Asn1Item):
            dc['out'].append(snapshot(items[dc['i']][0], x, pool.sch[dc['i']])[:2])
        else:
            dc['out'].append(repr(x)[:40])
    for j, dc in enumerate(decs):
        got = ('ok', dc['out']) if dc['done'] == 'stop' else (dc['done'],)
        if got != solo[j]:
            fails.append({'sub': 'interleave', 'kind': 'differs', 'sig': '', 'obs': None,
                          'msg': 'decoder %d of %d interleaved gives %s, alone %s | %s' % (j, k, str(got)[:100], str(solo[j])[:100], desc[dc['i']])})
    return fails


def replay(case):
    if case.get('bulk_threads') is not None:
        return [dict(f, case=ir.to_jsonable(case), obs=None) for f in bulk_threads(case['bulk_threads'])]
    return [dict(f, case=ir.to_jsonable(case), obs=None) for f in run_case(case)]


def run_shard(desc, seed, tier, col):
    from hypothesis import strategies as st

    @st.composite
    def cases(draw):
        d = gen.D(draw, dict(gen.DEFAULT_CFG, **CFG))
        n = d.int(2, 3)
        pool = []
        for _ in range(n):
            T = gen.draw_type(d)
            pool.append([T, gen.draw_value(d, T)])
        r = d.int(0, 99)
        if r < 8:
            # (a directed shape of the general generator: SET whose order depends on an alternative two CHOICE levels down)
            pool[0] = list(gen.nested_choice_set_case(d))
        elif r < 16:
            # a record whose absent OPTIONAL members are of types without a mandatory member (a placeholder for one of them
            # counts as a value once it is instantiated)
            inner = ir.mk('SEQUENCE', comps=[ir.comp('x', ir.mk('INTEGER'), 'opt'), ir.comp('y', ir.mk('BOOLEAN', tags=[['I', 'C', 1]]), 'def', True)])
            T = ir.mk(d.pick(['SEQUENCE', 'SET']), comps=[ir.comp('a', ir.mk('INTEGER')), ir.comp('p', dict(inner, tags=[['I', 'C', 2]]), 'opt'),
                                                          ir.comp('q', ir.mk('SEQUENCEOF', tags=[['I', 'C', 3]], of=ir.mk('INTEGER')), 'opt')])
            pool[0] = [T, {'a': d.int(0, 300)}]
        elif r < 24:
            # a tagged BIT STRING of whole octets, longer than the chunk sizes of the chunking encoder call
            n = d.pick([16, 24, 32, 40])
            T = ir.mk('BITSTRING', tags=[[d.pick(['I', 'E']), 'C', d.int(0, 5)]])
            pool[0] = [T, (n, d.int(0, 2 ** n - 1))]
        if d.pct(30):
            # a record that repeats a tag in two OPTIONAL runs separated by a mandatory member (legal: X.680 25.6), given two
            # values that use the first and the second occurrence
            X, Y = gen.draw_type(d, 0, root=False, allow_any=False), gen.draw_type(d, 0, root=False, allow_any=False)
            if not X.get('tags') and not Y.get('tags') and ir.first_tags(X) and ir.first_tags(Y) and not (ir.first_tags(X) & ir.first_tags(Y)):
                T = ir.mk('SEQUENCE')
                T['comps'] = [ir.comp('low', X, 'opt'), ir.comp('mid', Y, 'req'), ir.comp('high', ir.from_jsonable(ir.to_jsonable(X)), 'opt')]
                x1, x2, y = gen.draw_value(d, X), gen.draw_value(d, X), gen.draw_value(d, Y)
                pool[0] = [T, {'mid': y, 'high': x1}]
                pool.append([T, {'low': x2, 'mid': y}])
                if d.pct(50):
                    pool.append([T, {'low': x2, 'mid': y, 'high': x1}])
        elif d.pct(60):
            pool.append([pool[0][0], gen.draw_value(d, pool[0][0])])       # the same type twice
        # one pool in three: the first type once more with string leaves built with the documented `encoding=` option, so that
        # one class is in use with two codecs (no draw is spent: a pure function of the pool)
        key = ir.jdump(ir.to_jsonable(pool))
        if zlib.crc32(key.encode()) % 3 == 0:
            T2, n_opt = ir.with_enc_opt(pool[0][0], key)
            if n_opt:
                pool.append([T2, pool[0][1]])
        hist = [[d.pick(CALLS + ['dec-tagmap', 'dec-BER', 'enc-native']), d.int(0, len(pool) - 1), d.int(0, 5)] for _ in range(d.int(3, 10))]
        case = {'pool': pool, 'history': hist}
        if d.pct(50):
            k = d.int(2, 4)
            case['interleave'] = {'chunks': [sorted(set(d.int(1, 40) for _ in range(d.int(1, 6)))) for _ in range(k)],
                                  'order': [d.int(0, k - 1) for _ in range(d.int(4, 40))]}
        case['threads'] = d.pct(25)
        return case

    def body(case):
        by = {}
        for name, i, _a in case['history']:
            by[i] = by.get(i, 0) + 1
        nontriv = max(by.values()) >= 3 or bool(case.get('interleave'))
        feats = (['encoding-option'] if any('enc_opt' in ir.jdump(ir.to_jsonable(T)) for T, _v in case['pool']) else []) + ['pool=%d' % len(case['pool']), 'history=%d' % len(case['history'])] + (['interleave'] if case.get('interleave') else []) + \
                (['threads'] if case.get('threads') else []) + sorted(set('call:' + h[0] for h in case['history']))
        col.case(case, nontriv, feats, sample={'pool': [ir.show_type(T)[:70] for T, _v in case['pool']], 'history': case['history'],
                                               'interleave': case.get('interleave'), 'threads': case.get('threads')})
        seen = set()
        for f in run_case(case):
            key = (f['sub'], f['kind'])
            if key in seen:
                continue
            seen.add(key)
            col.fail(f['sub'], f['kind'], f['msg'], case, sig=f['sig'])

    harness.run_given(cases(), body, seed, desc['examples'], col)
    if desc.get('i', 0) % 4 == 0:
        # (in four of the sixteen shards: eight threads each)
        for f in bulk_threads(seed, col):
            col.fail(f['sub'], f['kind'], f['msg'], {'bulk_threads': seed}, sig=f['sig'])


def bulk_threads(seed, col=None, n_threads=8, per_thread=700):
    """Many DISTINCT small values (integers, enumerations, bit strings, short strings) encoded and decoded on several threads at
    once, each thread with values of its own: whatever the codecs keep between calls (memo tables with eviction, caches keyed by
    value) is filled and turned over while other threads are inside it. Every result equals the one computed sequentially
    beforehand."""
    import threading
    fails = []
    work = []
    for k in range(n_threads):
        vals = []
        for j in range(per_thread):
            x = (seed * 7919 + k * 100003 + j * 17) % 60000 - 30000
            vals.append((ir.mk('INTEGER'), x))
            if j % 3 == 0:
                vals.append((ir.mk('BITSTRING'), (1 + (j + k) % 40, (x * x + k) % (2 ** (1 + (j + k) % 40)))))
            if j % 5 == 0:
                vals.append((ir.mk('OID'), (1, 3, 6, abs(x), k, j)))
        work.append(vals)
    schs = {k_: build.schema(ir.mk(k_)) for k_ in ('INTEGER', 'BITSTRING', 'OID')}
    want = [[x690.der(T, v) for T, v in vals] for vals in work]
    got = [None] * n_threads
    errs = []

    def run(k):
        try:
            out = []
            for T, v in work[k]:
                e = lib.ENC['DER'].encode(build.value_from(schs[T['k']], T, v))
                d, rest = lib.DEC['DER'].decode(e, asn1Spec=schs[T['k']])
                out.append(e if absval.equal(T, d, v, schs[T['k']])[0] and not rest else b'!decode')
            got[k] = out
        except Exception as ex:
            errs.append(ex)
    old = sys.getswitchinterval()
    sys.setswitchinterval(1e-6)
    try:
        ths = [threading.Thread(target=run, args=(k,)) for k in range(n_threads)]
        for t in ths:
            t.start()
        for t in ths:
            t.join(120)
    finally:
        sys.setswitchinterval(old)
    if col is not None:
        col.case(('bulk-threads', seed), True, ['bulk-threads'], sample={'threads': n_threads, 'distinct_values_per_thread': len(work[0])})
    for ex in errs[:1]:
        fails.append({'sub': 'bulk-threads', 'kind': 'leak', 'sig': harness.exc_sig(ex), 'obs': None,
                      'msg': 'a thread encoding / decoding its own values died with %s: %s' % (harness.exc_sig(ex), str(ex)[:100])})
    for k in range(n_threads):
        if got[k] is not None and got[k] != want[k]:
            j = next(i for i, (a, b) in enumerate(zip(got[k], want[k])) if a != b)
            fails.append({'sub': 'bulk-threads', 'kind': 'differs', 'sig': '', 'obs': None,
                          'msg': 'thread %d, value %d (%r): %s, sequentially %s' % (k, j, work[k][j][1], got[k][j].hex()[:40], want[k][j].hex()[:40])})
            break
    return fails


FINDINGS = {}
