"""C07 - decoding consumes exactly one encoding and preserves what follows."""
import io

from pv.core import ir, gen, build, absval, lib, harness, x690
from pv.core import findings as fz

PROP = 'C07'
LEVEL = 'exploration'
DESIGN_REF = 'DESIGN.md 4/C07'
RULE = ('Hypothesis draws a type T, 1..4 values of it and for each a reference encoding (DER, CER, BER indefinite / chunked, BER '
        'with every choice point drawn - including encodings ending in end-of-octets markers and explicitly tagged primitives in '
        'indefinite form) plus a tail t from {empty, 00, 00 00, 00 00 00 00, another valid encoding, random octets, ff..}; oracle: '
        'decode(e + t, T) returns the value of decode(e, T) and exactly t; StreamingDecoder over BytesIO(e1..en) yields n objects '
        'and stream.tell() right after the i-th object equals |e1|+..+|ei| (also without guiding type for self-describing T; also on '
        'a seekable non-blocking source whose bursts arrive on the reader\'s own read clock). '
        'decode(e, T) of one encoding alone must not hand octets back; value errors of decode(e, T) belong to C01/C09 and only exclude the case. '
        'Non-trivial = non-empty tail, n >= 2, or e ends with 00 00; distinct = distinct (T, e1..en, t).')
RULE += (' ' + "Also: a fresh StreamingDecoder per encoding on ONE non-seekable source whose doubles honour close() (what follows an encoding is preserved for the next reader, and the caller's stream stays open); inputs in the region of known finding F09 (long non-seekable streams with definite nested elements) are counted as excluded.")
ASSUMPTIONS = ['input encodings come from pv/core/x690.py and are validated by its reader']
SHARDS = {'quick': (16, 200), 'thorough': (16, 5000)}
BUDGET = {'quick': 100, 'thorough': 1500}
MIN_NONTRIVIAL = {'quick': 500, 'thorough': 5000}
CFG = {'long_str_pct': 1, 'any_indef_pct': 0, 'any_long_pct': 25}
CODECS = ('BER', 'CER', 'DER')


def shards(tier):
    n, per = SHARDS[tier]
    return [{'examples': per, 'i': i} for i in range(n)]


def codec_for(form):
    return {'DER': 'DER', 'CER': 'CER'}.get(form, 'BER')


def selfdesc(T):
    return not any(m == 'I' for t in fz.type_nodes(T) for m, _c, _n in t.get('tags', ())) and 'ANY' not in ir.kinds_in(T)


def run_case(case, col=None):
    T = case['T']
    encs, tails, forms = case['encs'], case['tails'], case['forms']
    fails = []

    def F(sub, kind, msg, sig='', obs=None):
        fails.append({'sub': sub, 'kind': kind, 'sig': sig, 'msg': msg, 'obs': obs})

    sch = build.schema(T)
    specs = [('guided', sch)] + ([('schemaless', None)] if selfdesc(T) else [])
    usable = []
    for e, form, v in zip(encs, forms, case['vals']):
        try:
            x690.read(T, e)
        except x690.RefError as r:
            raise harness.HarnessError('reference encoding rejected by the reference reader: %s %s' % (r.kind, e.hex()[:120]))
        codec = codec_for(form)
        ok_all = True
        for sname, spec in specs:
            d0 = lib.decode(codec, e, spec)
            if d0.ok and d0.rest != b'':
                # e is exactly one encoding (the reference reader says so): handing part of it back is consuming less than one
                F('oneshot-' + sname, 'short', 'decode(e) of exactly one encoding leaves %s unread | e=%s' % (bytes(d0.rest).hex()[:60], e.hex()[:120]))
            good = d0.ok and d0.rest == b''
            if not good:
                ok_all = False
                if col is not None:
                    col.exclude('precondition: decode(e) alone fails or leaves a remainder (C09 / C16)')
                continue
            # (whether decode(e) is the right value is C01/C09's business: what follows compares decode(e + t) with decode(e))
            right = absval.equal(T, d0.value, v, spec)[0] if spec is not None else True
            if not right:
                ok_all = False
            base = _snap(T, d0.value, spec)
            for t in tails:
                d = lib.decode(codec, e + t, spec)
                sub = 'oneshot-' + sname
                if not d.ok:
                    F(sub, 'raises', 'decode(e+t) %s | e=%s t=%s' % (d.brief(), e.hex()[:120], t.hex()[:40]), d.sig)
                    continue
                if bytes(d.rest) != t:
                    F(sub, 'tail', 'remainder %s, tail was %s | e=%s' % (bytes(d.rest).hex()[:60], t.hex()[:60], e.hex()[:120]))
                if _snap(T, d.value, spec) != base:
                    F(sub, 'value', 'value differs with a tail present | e=%s t=%s' % (e.hex()[:120], t.hex()[:40]))
        if ok_all:
            usable.append((e, codec))
    # streaming positions: all encodings through one decoder (BER decoder reads DER/CER too)
    if usable and len(usable) == len(encs):
        for sname, spec in specs:
            codec = 'BER' if len({c for _e, c in usable}) > 1 else usable[0][1]
            stream = io.BytesIO(b''.join(e for e, _c in usable))
            expect = []
            tot = 0
            for e, _c in usable:
                tot += len(e)
                expect.append(tot)
            got = []
            sub = 'stream-' + sname
            try:
                dec = lib.DEC[codec].StreamingDecoder(stream, asn1Spec=spec) if spec is not None else lib.DEC[codec].StreamingDecoder(stream)
                for obj in dec:
                    got.append(stream.tell())
                    if len(got) > len(expect) + 2:
                        break
            except lib.error.PyAsn1Error as ex:
                F(sub, 'raises', '%s after %d objects | stream=%s' % (harness.exc_sig(ex), len(got), stream.getvalue().hex()[:160]), harness.exc_sig(ex))
                continue
            except Exception as ex:
                F(sub, 'leak', '%s after %d objects | stream=%s' % (harness.exc_sig(ex), len(got), stream.getvalue().hex()[:160]), harness.exc_sig(ex))
                continue
            if got != expect:
                F(sub, 'positions', 'positions after each object %s, ends of the encodings %s | stream=%s' % (got, expect, stream.getvalue().hex()[:160]))
    # positions again, on a seekable source whose data arrives on the reader's own clock (bursts may land between two reads
    # of one decoder step): tell() right after the i-th object is still the end of the i-th encoding
    if usable and len(usable) == len(encs):
        from pv.core import streams
        data = b''.join(e for e, _c in usable)
        ends, tot = [], 0
        for e, _c in usable:
            tot += len(e)
            ends.append(tot)
        for ci, (sizes, arrivals, eof_tick) in enumerate(case.get('clocked') or []):
            # (alternately seekable and non-seekable; behind the caching wrapper the position is the number of octets the
            # source has handed out)
            piped = bool(ci % 2)
            if piped and len(data) > io.DEFAULT_BUFFER_SIZE and _f09_region(T, encs):
                # (behind the caching wrapper, beyond its buffer size, with definite-length nested elements: known finding F09,
                # which C11 reports)
                if col is not None:
                    col.exclude('long non-seekable clocked stream with definite-length nested elements (known finding F09, reported by C11)')
                continue
            st = (streams.ClockPipe if piped else streams.ClockSeekable)(data, sizes, arrivals, eof_tick)
            got, steps, err = [], 0, None
            try:
                for obj in lib.DEC['BER'].StreamingDecoder(st, asn1Spec=sch):
                    steps += 1
                    if steps > 20 * len(data) + 3 * eof_tick + 60:
                        err = 'no end after %d steps' % steps
                        break
                    if isinstance(obj, lib.error.SubstrateUnderrunError):
                        continue
                    got.append(st.c.handed if piped else st.tell())
            except lib.error.PyAsn1Error as ex:
                err = harness.exc_sig(ex)
            except Exception as ex:
                err = 'leak ' + harness.exc_sig(ex)
            where = '%s, chunks=%s arrive at read ticks %s, end at %d | stream=%s' % ('non-seekable' if piped else 'seekable', sizes[:20], arrivals[:20], eof_tick, data.hex()[:160])
            if err is not None:
                F('stream-clocked', 'raises', '%s after %d of %d objects | %s' % (err, len(got), len(ends), where), err)
            elif got != ends:
                F('stream-clocked', 'positions', 'positions after each object %s, ends of the encodings %s | %s' % (got, ends, where))
    # a fresh StreamingDecoder per encoding on ONE non-seekable source (each decoder is dropped after its object): what follows an
    # encoding is preserved for whoever reads the source next
    if usable and len(usable) == len(encs) and len(encs) >= 2 and not _f09_region(T, encs):
        import gc
        from pv.core import streams
        raw = streams.WholePipe(b''.join(e for e, _c in usable))
        got, err = 0, None
        try:
            for _e, _c in usable:
                dec = lib.DEC['BER'].StreamingDecoder(raw, asn1Spec=sch)
                obj = next(iter(dec))
                if isinstance(obj, lib.error.SubstrateUnderrunError):
                    err = 'underrun on a blocking source'
                    break
                got += 1
                del dec, obj
                gc.collect()
        except StopIteration:
            err = 'no object'
        except lib.error.PyAsn1Error as ex:
            err = harness.exc_sig(ex)
        except Exception as ex:
            err = 'leak ' + harness.exc_sig(ex)
        if err is not None:
            F('decoder-per-encoding', 'raises', '%s after %d of %d encodings read by one decoder each | stream=%s' % (
                err, got, len(usable), b''.join(e for e, _c in usable).hex()[:160]), err)
    # the same encodings, repeated until they exceed twice the read-ahead buffer, from a non-seekable stream
    if case.get('pipe') and usable and len(usable) == len(encs) and not _f09_region(T, encs):
        # (definite-length constructed elements read through the caching wrapper hit known finding F09 - the
        # wrapper renumbers positions when it trims its cache - which C11 reports; they are excluded here)
        from pv.core import streams
        unit = b''.join(e for e, _c in usable)
        reps = (2 * io.DEFAULT_BUFFER_SIZE + 3000) // len(unit) + 1
        expect = []
        tot = 0
        for _ in range(reps):
            for e, _c in usable:
                tot += len(e)
                expect.append(tot)
        raw = streams.WholePipe(unit * reps)
        got = []
        try:
            for obj in lib.DEC['BER'].StreamingDecoder(raw, asn1Spec=sch):
                got.append(raw.pos)
                if len(got) > len(expect) + 2:
                    break
        except lib.error.PyAsn1Error as ex:
            F('stream-pipe', 'raises', '%s after %d of %d objects (%d octets)' % (harness.exc_sig(ex), len(got), len(expect), tot), harness.exc_sig(ex))
        except Exception as ex:
            F('stream-pipe', 'leak', '%s after %d of %d objects' % (harness.exc_sig(ex), len(got), len(expect)), harness.exc_sig(ex))
        else:
            if got != expect:
                bad = next((i for i, (a, b) in enumerate(zip(got + [None] * len(expect), expect)) if a != b), None)
                F('stream-pipe', 'positions', '%d objects for %d encodings; first difference at object %s: position %s, end of encoding %s'
                  % (len(got), len(expect), bad, got[bad] if bad is not None and bad < len(got) else None,
                     expect[bad] if bad is not None else None))
    return fails


def _f09_region(T, encs):
    """Inputs on which the caching wrapper's position renumbering (known finding F09) bites: a definite-length
    element that is decoded through a nested decoder call - constructed elements and untagged CHOICE."""
    if 'CHOICE' in ir.kinds_in(T):
        return True
    for e in encs:
        for top in x690.walk_all(e):
            if any(n.con and not n.indefinite for n in x690.nodes(top)):
                return True
    return False


def _snap(T, obj, spec):
    try:
        return ir.jdump(ir.canon(T, absval.absval(T, obj, spec, check_type=spec is not None)))
    except Exception:
        try:
            return 'DER:' + lib.encode('DER', obj).brief() + (lib.encode('DER', obj).value or b'').hex()
        except Exception as e:
            return 'unreadable:%s' % type(e).__name__


def replay(case):
    return [dict(f, case=ir.to_jsonable(case), obs=ir.to_jsonable(f.get('obs'))) for f in run_case(case)]


def run_shard(desc, seed, tier, col):
    from hypothesis import strategies as st
    from pv.core.streams import cuts_to_sizes as streams_cuts

    @st.composite
    def cases(draw):
        ev = draw(gen.encoded_values(CFG, 1, 4))
        d = gen.D(draw, gen.DEFAULT_CFG)
        tails = [b'']
        for _ in range(d.int(1, 3)):
            r = d.int(0, 6)
            if r == 0:
                tails.append(b'\x00')
            elif r == 1:
                tails.append(b'\x00\x00')
            elif r == 2:
                tails.append(b'\x00\x00\x00\x00')
            elif r == 3:
                tails.append(d.pick(ev['encs']))
            elif r == 4:
                tails.append(d.bytes(d.int(1, 12)))
            elif r == 5:
                tails.append(b'\xff' * d.int(1, 5))
            else:
                tails.append(x690.der({'k': 'INTEGER', 'tags': []}, d.int(-300, 300)))
        ev['tails'] = tails
        ev['pipe'] = d.pct(6)
        n = sum(len(e) for e in ev['encs'])
        ev['clocked'] = []
        for _ in range(6 if n >= 2 else 0):
            sizes = streams_cuts(n, sorted(set(d.int(1, n - 1) for _ in range(d.int(1, 4)))))
            t, arrivals = 0, []
            for i in range(len(sizes)):
                t += 0 if i == 0 else d.pick([1, 1, 2, 2, 3, 4, 6])
                arrivals.append(t)
            ev['clocked'].append([sizes, arrivals, t + d.pick([0, 1, 2, 3])])
        return ev

    def body(ev):
        case = {'T': ev['T'], 'encs': ev['encs'], 'tails': ev['tails'], 'forms': ev['forms'], 'vals': ev['vals'], 'pipe': ev['pipe'],
                'clocked': ev['clocked']}
        nontriv = len(ev['encs']) >= 2 or any(ev['tails'][1:]) or any(e.endswith(b'\x00\x00') for e in ev['encs'])
        feats = ['n=%d' % len(ev['encs'])] + sorted(set('form:' + f for f in ev['forms']))
        if any(e.endswith(b'\x00\x00') for e in ev['encs']):
            feats.append('ends-with-eoo')
        if ev['pipe']:
            feats.append('non-seekable>16KiB' if not _f09_region(ev['T'], ev['encs']) else 'non-seekable excluded (F09)')
        col.case({'T': ev['T'], 'e': ev['encs'], 't': ev['tails']}, nontriv, feats,
                 sample={'type': ir.show_type(ev['T']), 'encodings': [e.hex()[:80] for e in ev['encs']],
                         'tails': [t.hex()[:40] for t in ev['tails']], 'forms': ev['forms']})
        col.begin(case)
        for f in run_case(case, col):
            col.fail(f['sub'], f['kind'], f['msg'], case, sig=f['sig'], obs=f.get('obs'))

    harness.run_given(cases(), body, seed, desc['examples'], col)


FINDINGS = {}
