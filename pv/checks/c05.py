"""C05 - streaming decoder output is independent of the data arrival schedule."""
import io
import itertools

from pyasn1 import error
from pyasn1.type import base as _base

from pv.core import ir, gen, build, absval, lib, harness, x690, streams
from pv.core import findings as fz

PROP = 'C05'
LEVEL = 'exploration'
DESIGN_REF = 'DESIGN.md 4/C05'
RULE = ('Hypothesis draws a type T, 1..3 values and a reference encoding of each (all forms); the stream s = e1..en is decoded by '
        'StreamingDecoder under arrival schedules on stream doubles that own the schedule (BytesIO with a moving horizon, '
        'seekable growing stream, non-seekable pipe behind the caching wrapper; the latter two also handing out at most 1..3 octets '
        'per read, and with bursts arriving on the reader\'s own read clock): ALL 2^(|s|-1) partitions when |s| <= 11, otherwise '
        'every single cut, cuts around every structural boundary and drawn partitions; empty polls before chunks; end of stream '
        'signalled with or one poll after the last chunk; guided and (self-describing T) unguided. Oracle: objects, order and '
        'final outcome equal those of the same decoder on io.BytesIO(s); every underrun is preceded by a read that found data '
        'missing; no underrun once everything is delivered and the end signalled; nothing but values and underrun objects is '
        'yielded. evaluations = scheduled runs; non-trivial = the schedule cuts inside an element; distinct = distinct (s, '
        'schedule, double).')
RULE += (' ' + 'Also: a caller-owned io.BytesIO that grows between objects, ONE decoder object iterated again after each append, io.BufferedReader over the seekable double, and one large primitive value (8300 octets .. 1.2 MiB) followed by three small ones in starvation schedules (part of it, idle polls, the rest together with octets of what follows; the second piece also landing between two reads of one decoder step).')
ASSUMPTIONS = ['the complete-input run on io.BytesIO(s) is the reference outcome (differential oracle within the library)',
               'stream doubles implement exactly the read protocol of codec/streaming.py (None = no data yet, b"" = end)']
SHARDS = {'quick': (16, 14), 'thorough': (16, 700)}
BUDGET = {'quick': 100, 'thorough': 1500}
MIN_NONTRIVIAL = {'quick': 500, 'thorough': 5000}
CFG = {'long_str_pct': 0, 'max_depth': 2, 'max_comps': 3, 'any_long_pct': 0, 'str_sizes': [0, 1, 2, 3, 5, 8, 13, 20], 'many_elems_pct': 0}
TECHNIQUE = 'property-based generation of streams + exhaustive / sampled arrival schedules on stream doubles, differential oracle'
EXHAUSTIVE_LEN = {'quick': 9, 'thorough': 12}


def shards(tier):
    n, per = SHARDS[tier]
    return [{'examples': per, 'i': i} for i in range(n)]


def selfdesc(T):
    return not any(m == 'I' for t in fz.type_nodes(T) for m, _c, _n in t.get('tags', ())) and 'ANY' not in ir.kinds_in(T)


def snap(T, obj, spec):
    try:
        if spec is not None:
            return ir.jdump(ir.canon(T, absval.absval(T, obj, spec)))
    except Exception:
        pass
    e = lib.encode('DER', obj)
    return 'DER:' + (e.value.hex() if e.ok else e.brief())


def reference(codec, s, T, spec):
    """Outcome on the complete input: (snapshots, final) or None when the complete-input run itself misbehaves
    (yields something that is not a value, leaks an exception): such inputs belong to C08 / C09."""
    items, final = lib.stream_all(codec, io.BytesIO(s), spec)
    if any(not isinstance(x, _base.Asn1Item) for x in items):
        return None
    if final != 'stop' and final.status == 'leak':
        return None
    return [snap(T, x, spec) for x in items], ('stop' if final == 'stop' else final.errclass())


DOUBLES = ('horizon', 'seekable', 'pipe')
CAPPED = ('seekable-capped', 'pipe-capped', 'buffered')       # hand out at most 1..3 octets per read although more may be there


def drive(kind, codec, s, sizes, polls, eof_late, T, spec):
    """-> (outputs, final, problems)"""
    if kind == 'horizon':
        st = streams.HorizonBytesIO(s)
    elif kind == 'seekable':
        st = streams.SeekableFeed()
    elif kind == 'buffered':
        st = streams.BufferedFeed()
    elif kind == 'seekable-capped':
        st = streams.SeekableFeed(max_read=1 + len(sizes) % 3)
    elif kind == 'pipe-capped':
        st = streams.PipeFeed(max_read=1 + len(sizes) % 3)
    else:
        st = streams.PipeFeed()
    actions = []
    pos = 0
    for i, n in enumerate(sizes):
        actions += ['poll'] * polls[i % len(polls)]
        actions.append(('feed', pos, pos + n, i == len(sizes) - 1))
        pos += n
    if eof_late or not sizes:
        actions.append('finish')
    ai = [0]

    def advance():
        if ai[0] >= len(actions):
            return False
        a = actions[ai[0]]
        ai[0] += 1
        if a == 'poll':
            return True
        if a == 'finish':
            st.finish()
            return True
        _f, lo, hi, last = a
        if kind == 'horizon':
            st.feed(hi - lo)
        else:
            st.feed_bytes(s[lo:hi])
        if last and not eof_late:
            st.finish()
        return True

    advance()
    out, problems = [], []
    final = None
    budget = 20 * len(s) + 50 + 3 * len(actions)
    try:
        it = iter(lib.DEC[codec].StreamingDecoder(st, asn1Spec=spec) if spec is not None else lib.DEC[codec].StreamingDecoder(st))
        steps = 0
        while True:
            steps += 1
            if steps > budget:
                final = 'livelock'
                break
            st.c.reset_step()
            try:
                x = next(it)
            except StopIteration:
                final = 'stop'
                break
            if isinstance(x, error.SubstrateUnderrunError):
                if not st.c.starved:
                    problems.append(('dishonest-underrun', 'underrun reported although no read found data missing'))
                if not advance() and kind not in CAPPED:
                    # (a double that caps reads makes every multi-octet read look short once: the library documents an
                    # underrun as "no size bytes readily available", so there the run only has to go on and end - the step
                    # budget above turns an endless series of underruns into 'livelock')
                    problems.append(('underrun-after-end', 'underrun reported after all data was delivered and the end signalled'))
                    final = 'underrun-after-end'
                    break
            elif x is None or not isinstance(x, _base.Asn1Item):
                problems.append(('yielded-non-value', 'decoder yielded %r' % (x,)))
                if not advance():
                    final = 'stuck'
                    break
            else:
                out.append(snap(T, x, spec))
    except error.PyAsn1Error as ex:
        final = lib.Out('err', exc=ex).errclass()
    except Exception as ex:
        final = 'leak:' + type(ex).__name__ + '@' + harness.exc_sig(ex).split('@')[-1]
    if final == 'stop':
        if kind.startswith('pipe') and st.q:
            problems.append(('unread', '%d octets left unread in the pipe at the end' % len(st.q)))
        if kind.startswith('seekable') and st.pos != len(st.buf):
            problems.append(('unread', 'stream position %d of %d at the end' % (st.pos, len(st.buf))))
    return out, final, problems


def drive_clocked(kind, codec, s, sizes, arrivals, eof_tick, T, spec):
    """The double owns a clock that ticks with every read() (streams._Clocked). -> (outputs, final, problems)"""
    st = (streams.ClockSeekable if kind == 'clock-seekable' else streams.ClockPipe)(s, sizes, arrivals, eof_tick)
    out, problems = [], []
    final = None
    budget = 20 * len(s) + 50 + 3 * (max(list(arrivals) + [eof_tick]) + 2)
    try:
        it = iter(lib.DEC[codec].StreamingDecoder(st, asn1Spec=spec) if spec is not None else lib.DEC[codec].StreamingDecoder(st))
        steps = 0
        while True:
            steps += 1
            if steps > budget:
                final = 'livelock'
                break
            st.c.reset_step()
            try:
                x = next(it)
            except StopIteration:
                final = 'stop'
                break
            if isinstance(x, error.SubstrateUnderrunError):
                if not st.c.starved:
                    problems.append(('dishonest-underrun', 'underrun reported although no read found data missing'))
                if st.eof and not st.pending and steps > budget - 5:
                    problems.append(('underrun-after-end', 'underruns keep coming after the end was signalled'))
            elif x is None or not isinstance(x, _base.Asn1Item):
                problems.append(('yielded-non-value', 'decoder yielded %r' % (x,)))
            else:
                out.append(snap(T, x, spec))
    except error.PyAsn1Error as ex:
        final = lib.Out('err', exc=ex).errclass()
    except Exception as ex:
        final = 'leak:' + type(ex).__name__ + '@' + harness.exc_sig(ex).split('@')[-1]
    return out, final, problems


def drive_growing_bytesio(codec, encs, T, spec):
    """A caller-owned io.BytesIO that grows while one decoder iterates over it: an empty read of a BytesIO means "end", so data
    can only be added between objects - the next encoding is appended after each object was handed over, before the decoder is
    asked again. -> (outputs, final)"""
    st = io.BytesIO()
    pending = list(encs)

    def feed():
        if pending:
            pos = st.tell()
            st.seek(0, io.SEEK_END)
            st.write(pending.pop(0))
            st.seek(pos)
    feed()
    out, final = [], 'stop'
    try:
        it = iter(lib.DEC[codec].StreamingDecoder(st, asn1Spec=spec) if spec is not None else lib.DEC[codec].StreamingDecoder(st))
        for _ in range(4 * len(encs) + 8):
            try:
                x = next(it)
            except StopIteration:
                break
            if isinstance(x, _base.Asn1Item):
                out.append(snap(T, x, spec))
                feed()
        else:
            final = 'livelock'
    except error.PyAsn1Error as ex:
        final = lib.Out('err', exc=ex).errclass()
    except Exception as ex:
        final = 'leak:' + type(ex).__name__
    return out, final


def drive_reiterated_bytesio(codec, encs, T, spec):
    """A caller-owned io.BytesIO and ONE decoder object: the caller iterates it until it stops (the buffer is drained, at the
    end of an encoding), appends the next encoding and iterates the same object again. -> (outputs, final)"""
    st = io.BytesIO()
    out, final = [], 'stop'
    try:
        dec = lib.DEC[codec].StreamingDecoder(st, asn1Spec=spec) if spec is not None else lib.DEC[codec].StreamingDecoder(st)
        for e in encs:
            pos = st.tell()
            st.seek(0, io.SEEK_END)
            st.write(e)
            st.seek(pos)
            n = 0
            for x in dec:
                n += 1
                if n > 4 * len(encs) + 8:
                    return out, 'livelock'
                if isinstance(x, _base.Asn1Item):
                    out.append(snap(T, x, spec))
    except error.PyAsn1Error as ex:
        final = lib.Out('err', exc=ex).errclass()
    except Exception as ex:
        final = 'leak:' + type(ex).__name__
    return out, final


def clocked_schedules(s, d, count):
    """(sizes, arrival ticks, eof tick): cuts inside the stream, arrival ticks close together so that bursts land between
    consecutive reads."""
    n = len(s)
    if n < 2:
        return
    for _ in range(count):
        cuts = sorted(set(d.int(1, n - 1) for _ in range(d.int(1, 4))))
        sizes = streams.cuts_to_sizes(n, cuts)
        t, arrivals = 0, []
        for i in range(len(sizes)):
            t += 0 if i == 0 else d.pick([1, 1, 2, 2, 3, 4, 6])
            arrivals.append(t)
        yield sizes, arrivals, t + d.pick([0, 1, 2, 3])


def boundaries(s):
    """Positions just around structural boundaries (identifier / length / contents / EOO starts and ends)."""
    pts = set()
    try:
        for top in x690.walk_all(s):
            for n in x690.nodes(top):
                for p in (n.start, n.start + 1, n.hdr_end - 1, n.hdr_end, n.hdr_end + 1, n.end - 2, n.end - 1, n.end):
                    if 0 < p < len(s):
                        pts.add(p)
    except x690.RefError:
        pass
    return sorted(pts)


def schedules(s, tier, d):
    """Yield (sizes, polls, eof_late). d: gen.D for the sampled part."""
    n = len(s)
    if n == 0:
        return
    if n <= EXHAUSTIVE_LEN[tier]:
        for i, sizes in enumerate(streams.partitions(n)):
            yield sizes, (0,), False
            yield sizes, (0,), True
            if i % 10 == 3:
                yield sizes, (1, 0, 2), True
        return
    yield [n], (0,), False
    yield [n], (1,), True
    for k in range(1, n):
        yield [k, n - k], (0,), bool(k & 1)
    b = boundaries(s)
    for x, y in itertools.combinations(b[:24], 2):
        yield streams.cuts_to_sizes(n, [x, y]), (0, 1), bool((x + y) & 1)
    for _ in range(20):
        cuts = sorted(set(d.int(1, n - 1) for _ in range(d.int(1, 6))))
        yield streams.cuts_to_sizes(n, cuts), tuple(d.int(0, 2) for _ in range(3)), d.pct(50)
    yield [1] * n, (0,), False
    yield [1] * n, (1,), True


def inside_element(s, sizes):
    """A cut that does not coincide with a top-level boundary."""
    tops = set()
    try:
        for top in x690.walk_all(s):
            tops.add(top.end)
    except x690.RefError:
        pass
    pos = 0
    for n in sizes[:-1]:
        pos += n
        if pos not in tops:
            return True
    return False


def run_case(case, col=None, sched_iter=None):
    T, s, codec = case['T'], case['s'], case['codec']
    fails = []

    def F(sub, kind, msg, sig='', obs=None):
        fails.append({'sub': sub, 'kind': kind, 'sig': sig, 'msg': msg, 'obs': obs})

    sch = build.schema(T)
    specs = [('guided', sch)] + ([('schemaless', None)] if selfdesc(T) else [])
    clocked, clock_kinds = list(case.get('clocked') or []), ('clock-pipe', 'clock-seekable')
    if case.get('schedule') is not None:
        sc = case['schedule']
        specs = [x for x in specs if x[0] == sc['spec']]
        if sc.get('double') == 'growing-bytesio':
            scheds, doubles, clocked = [], [], []
        elif sc.get('clocked'):
            scheds, doubles = [], []
            clocked, clock_kinds = [sc['clocked']], [sc['double']]
        else:
            scheds = [(sc['sizes'], tuple(sc['polls']), sc['eof_late'])]
            doubles = [sc['double']]
            clocked = []
    else:
        scheds = list(sched_iter)
        doubles = DOUBLES
    for sname, spec in specs:
        ref = reference(codec, s, T, spec)
        if ref is None:
            if col is not None:
                col.exclude('precondition: the decoder misbehaves on the complete input already (C08 / C09)')
            continue
        ref_out, ref_final = ref
        for si, (sizes, polls, eof_late) in enumerate(scheds):
            for kind in (tuple(doubles) + CAPPED if doubles is DOUBLES and si % 3 == 0 else doubles):
                out, final, problems = drive(kind, codec, s, sizes, polls, eof_late, T, spec)
                if col is not None:
                    col.case(s + repr((sizes, kind, sname, eof_late, polls)).encode(),
                             inside_element(s, sizes), ['double:' + kind, sname, 'eof-late' if eof_late else 'eof-with-last',
                                                        'polls' if any(polls) else 'no-polls', 'chunks=%d' % min(len(sizes), 6)],
                             sample={'type': ir.show_type(T), 'stream': s.hex()[:120], 'chunk_sizes': sizes[:40], 'polls': list(polls),
                                     'eof_late': eof_late, 'double': kind, 'guided': spec is not None})
                obs = {'sizes': sizes, 'polls': list(polls), 'eof_late': eof_late, 'double': kind, 'spec': sname}
                sub = '%s-%s' % (kind, sname)
                if out != ref_out or final != ref_final:
                    F(sub, 'differs', 'scheduled run gives %d object(s) then %s; complete input gives %d then %s | chunks=%s polls=%s eof_late=%s s=%s'
                      % (len(out), final, len(ref_out), ref_final, sizes[:20], list(polls), eof_late, s.hex()[:100]),
                      sig='%s/%s' % (final, ref_final), obs=obs)
                for pk, pm in problems:
                    F(sub, pk, '%s | chunks=%s polls=%s eof_late=%s s=%s' % (pm, sizes[:20], list(polls), eof_late, s.hex()[:100]), obs=obs)
        # a plain BytesIO growing between objects
        if (case.get('schedule') is None or case['schedule'].get('double') == 'growing-bytesio') and len(case.get('encs') or []) >= 2:
            out, final = drive_growing_bytesio(codec, case['encs'], T, spec)
            if col is not None:
                col.case(s + b'|growing-bytesio|' + sname.encode(), False, ['double:growing-bytesio', sname],
                         sample={'type': ir.show_type(T), 'stream': s.hex()[:120], 'double': 'io.BytesIO appended to between objects', 'guided': spec is not None})
            if out != ref_out or final != ref_final:
                F('growing-bytesio-' + sname, 'differs', 'a BytesIO that gets the next encoding after each object gives %d object(s) then %s; complete input gives %d then %s | s=%s'
                  % (len(out), final, len(ref_out), ref_final, s.hex()[:100]), sig='%s/%s' % (final, ref_final),
                  obs={'clocked': None, 'double': 'growing-bytesio', 'spec': sname, 'sizes': [len(e) for e in case['encs']], 'polls': [0], 'eof_late': False})
            if ref_final == 'stop':
                out, final = drive_reiterated_bytesio(codec, case['encs'], T, spec)
                if col is not None:
                    col.case(s + b'|reiterated-bytesio|' + sname.encode(), False, ['double:reiterated-bytesio', sname],
                             sample={'type': ir.show_type(T), 'stream': s.hex()[:120], 'guided': spec is not None,
                                     'double': 'io.BytesIO appended to after the decoder stopped, the same decoder iterated again'})
                if out != ref_out or final != ref_final:
                    F('reiterated-bytesio-' + sname, 'differs', 'a decoder iterated again after each appended encoding gives %d object(s) then %s; complete input gives %d then %s | s=%s'
                      % (len(out), final, len(ref_out), ref_final, s.hex()[:100]), sig='%s/%s' % (final, ref_final),
                      obs={'clocked': None, 'double': 'growing-bytesio', 'spec': sname, 'sizes': [len(e) for e in case['encs']], 'polls': [0], 'eof_late': False})
        # arrival schedules on the reader's clock
        for sizes, arrivals, eof_tick in clocked:
            for kind in clock_kinds:
                obs = {'clocked': [sizes, arrivals, eof_tick], 'double': kind, 'spec': sname}
                out, final, problems = drive_clocked(kind, codec, s, sizes, arrivals, eof_tick, T, spec)
                if col is not None:
                    col.case(s + repr((sizes, kind, sname, arrivals, eof_tick)).encode(), inside_element(s, sizes),
                             ['double:' + kind, sname, 'chunks=%d' % min(len(sizes), 6)],
                             sample={'type': ir.show_type(T), 'stream': s.hex()[:120], 'chunk_sizes': sizes[:40], 'arrival_ticks': arrivals,
                                     'eof_tick': eof_tick, 'double': kind, 'guided': spec is not None})
                sub = '%s-%s' % (kind, sname)
                if out != ref_out or final != ref_final:
                    F(sub, 'differs', 'clocked run gives %d object(s) then %s; complete input gives %d then %s | chunks=%s arrive at read ticks %s, end at %d s=%s'
                      % (len(out), final, len(ref_out), ref_final, sizes[:20], arrivals, eof_tick, s.hex()[:100]), sig='%s/%s' % (final, ref_final), obs=obs)
                for pk, pm in problems:
                    F(sub, pk, '%s | chunks=%s arrive at read ticks %s, end at %d s=%s' % (pm, sizes[:20], arrivals, eof_tick, s.hex()[:100]), obs=obs)
    return fails


LONG_CHUNKS = (1000, 4096, 8191, 8192, 8193, 20000)


def run_long(case, col=None):
    """The stream repeated beyond twice the read-ahead buffer, through the non-seekable pipe (and the seekable
    double) in fixed-size chunks; same oracle. Inputs in the region of known finding F09 are excluded."""
    T, codec = case['T'], case['codec']
    fails = []
    if fz.f09_region(T, case['encs']):
        if col is not None:
            col.exclude('long non-seekable stream with definite-length nested elements (known finding F09, reported by C11)')
        return fails
    unit = case['s']
    s = unit * ((2 * io.DEFAULT_BUFFER_SIZE + 1500) // max(1, len(unit)) + 1)
    sch = build.schema(T)
    ref = reference(codec, s, T, sch)
    if ref is None:
        return fails
    for n in LONG_CHUNKS:
        sizes = streams.cuts_to_sizes(len(s), list(range(n, len(s), n)))
        for kind in ('pipe', 'seekable'):
            out, final, problems = drive(kind, codec, s, sizes, (0, 1), bool(n & 1), T, sch)
            if col is not None:
                col.case(s[:64] + repr((len(s), n, kind)).encode(), True, ['long-stream', 'double:' + kind],
                         sample={'type': ir.show_type(T), 'stream_octets': len(s), 'unit': unit.hex()[:80], 'chunk': n, 'double': kind})
            if out != ref[0] or final != ref[1]:
                d = next((i for i, (a, b) in enumerate(zip(out, ref[0])) if a != b), min(len(out), len(ref[0])))
                fails.append({'sub': 'long-' + kind, 'kind': 'differs', 'sig': '%s/%s' % (final.split('@')[0], ref[1]), 'obs': {'chunk': n},
                              'msg': '%d-octet stream in %d-octet chunks: %d object(s) then %s; complete input gives %d then %s; first difference at object %d | unit=%s'
                                     % (len(s), n, len(out), final, len(ref[0]), ref[1], d, unit.hex()[:80])})
            for pk, pm in problems:
                fails.append({'sub': 'long-' + kind, 'kind': pk, 'sig': '', 'obs': {'chunk': n}, 'msg': '%s | %d-octet chunks, unit=%s' % (pm, n, unit.hex()[:80])})
    return fails


BIG_TAIL = bytes.fromhex('020105' '0403616263' '0101ff')


def run_big(case, col=None):
    """One large primitive value (beyond the wrapper's buffer, up to more than a MiB) followed by three small ones, without a
    guiding type, arriving in two or three pieces with idle polls in between: part of the large value, then (after the source
    ran dry) the rest together with octets of what follows."""
    n = case['big']
    head = x690.der(ir.mk('OCTETSTRING'), b'')[:1] + x690.length(n)
    s = head + (bytes(range(256)) * (n // 256 + 1))[:n] + BIG_TAIL
    T = ir.mk('OCTETSTRING')
    fails = []
    ref = reference('BER', s, T, None)
    if ref is None or ref[1] != 'stop' or len(ref[0]) != 4:
        raise harness.HarnessError('large-value stream does not decode as a whole: %r' % (ref and ref[1],))
    h = len(head)
    firsts = sorted({1, h - 1, h, h + 1, h + 100, h + n // 2, max(h + 1, h + n - 9000), h + n - 1})
    scheds = []
    for c in firsts:
        scheds.append([c, len(s) - c])
        for k in (1, 300, 9000):
            if c + k < h + n:
                scheds.append([c, k, len(s) - c - k])
        if c < h + n:
            scheds.append([c, h + n - c + 1, len(s) - (h + n) - 1])       # the completing piece carries one octet of what follows
    for sizes in scheds:
        for polls in ((0, 1), (0, 2), (1, 3)):
            for kind in ('pipe', 'seekable'):
                out, final, problems = drive(kind, 'BER', s, sizes, polls, bool(len(sizes) & 1), T, None)
                if col is not None:
                    col.case(repr((n, sizes, polls, kind)).encode(), True, ['large-value', 'double:' + kind, 'octets>=%d' % (10 ** (len(str(n)) - 1))],
                             sample={'large_value_octets': n, 'pieces': sizes, 'idle_polls': list(polls), 'double': kind})
                if out != ref[0] or final != ref[1]:
                    fails.append({'sub': 'big-' + kind, 'kind': 'differs', 'sig': '%s/%s' % (str(final).split('@')[0], ref[1]),
                                  'obs': {'sizes': sizes, 'polls': list(polls)},
                                  'msg': '%d-octet OCTET STRING + 3 small values in pieces %s (idle polls %s): %d object(s) then %s; complete input gives 4 then stop'
                                         % (n, sizes, list(polls), len(out), final)})
                for pk, pm in problems:
                    fails.append({'sub': 'big-' + kind, 'kind': pk, 'sig': '', 'obs': {'sizes': sizes, 'polls': list(polls)},
                                  'msg': '%s | %d-octet value, pieces %s' % (pm, n, sizes)})
    # the same, with the second piece landing on the reader's own clock (between two reads of ONE decoder step)
    for sizes in scheds:
        if len(sizes) != 2:
            continue
        for tick in range(1, 13):
            for kind in ('clock-pipe', 'clock-seekable'):
                out, final, problems = drive_clocked(kind, 'BER', s, sizes, [0, tick], tick + 1 + (tick & 1), T, None)
                if col is not None:
                    col.case(repr((n, sizes, tick, kind)).encode(), True, ['large-value', 'double:' + kind, 'octets>=%d' % (10 ** (len(str(n)) - 1))],
                             sample={'large_value_octets': n, 'pieces': sizes, 'second_piece_at_read_tick': tick, 'double': kind})
                if out != ref[0] or final != ref[1]:
                    fails.append({'sub': 'big-' + kind, 'kind': 'differs', 'sig': '%s/%s' % (str(final).split('@')[0], ref[1]),
                                  'obs': {'sizes': sizes, 'tick': tick},
                                  'msg': '%d-octet OCTET STRING + 3 small values in pieces %s, the second at read tick %d: %d object(s) then %s; complete input gives 4 then stop'
                                         % (n, sizes, tick, len(out), final)})
                for pk, pm in problems:
                    fails.append({'sub': 'big-' + kind, 'kind': pk, 'sig': '', 'obs': {'sizes': sizes, 'tick': tick},
                                  'msg': '%s | %d-octet value, pieces %s, tick %d' % (pm, n, sizes, tick)})
    return fails


def replay(case):
    if case.get('big_only'):
        return [dict(f, case=ir.to_jsonable(case), obs=ir.to_jsonable(f.get('obs'))) for f in run_big(case)]
    if case.get('long_only'):
        return [dict(f, case=ir.to_jsonable(case), obs=ir.to_jsonable(f.get('obs'))) for f in run_long(case)]
    return [dict(f, case=ir.to_jsonable(case), obs=ir.to_jsonable(f.get('obs'))) for f in run_case(case)]


def run_shard(desc, seed, tier, col):
    from hypothesis import strategies as st

    @st.composite
    def cases(draw):
        ev = draw(gen.encoded_values(CFG, 1, 3))
        d = gen.D(draw, gen.DEFAULT_CFG)
        s = b''.join(ev['encs'])
        codec = 'BER'
        if set(ev['forms']) == {'DER'}:
            codec = 'DER'
        elif set(ev['forms']) == {'CER'}:
            codec = 'CER'
        big = None
        if d.pct(3):
            big = d.pick([8300, 20000, 70000] if d.pct(70) else [1048577, 1200000])
        return ({'T': ev['T'], 's': s, 'codec': codec, 'encs': ev['encs'], 'long': d.pct(8), 'big': big,
                 'clocked': [list(x) for x in clocked_schedules(s, d, 40 if tier == 'quick' else 60)]}, list(schedules(s, tier, d)))

    def body(x):
        case, scheds = x
        seen = set()
        if case.get('big'):
            seen_big = set()
            for f in run_big(case, col):
                if (f['sub'], f['kind'], f['sig']) not in seen_big:
                    seen_big.add((f['sub'], f['kind'], f['sig']))
                    col.fail(f['sub'], f['kind'], f['msg'], {'big': case['big'], 'big_only': True}, sig=f['sig'], obs=f.get('obs'))
        if case['long']:
            for f in run_long(case, col):
                col.fail(f['sub'], f['kind'], f['msg'], dict(case, long_only=True), sig=f['sig'], obs=f.get('obs'))
        col.begin(case)
        for f in run_case(case, col, scheds):
            key = (f['sub'], f['kind'], f['sig'])
            if key in seen:
                continue
            seen.add(key)
            col.fail(f['sub'], f['kind'], f['msg'], dict(case, schedule=f['obs']), sig=f['sig'], obs=f.get('obs'))

    harness.run_given(cases(), body, seed, desc['examples'], col)


FINDINGS = {}
