"""C03 - encoder output equals the X.690 encoding computed by an independent reference."""
from pv.core import ir, gen, build, absval, lib, harness, x690
from pv.core import findings as fz

PROP = 'C03'
LEVEL = 'exploration'
DESIGN_REF = 'DESIGN.md 4/C03'
RULE = ('Hypothesis draws (T, v) from U with boundary bias on tag numbers, lengths and contents; oracle: (a) der.encode(v) is '
        'byte-identical to the reference DER pv/core/x690.py computes from the IR; (b) the reference reader, guided by T, reads '
        'ber.encode(v, drawn mode) and cer.encode(v) back to v; (c) the CER output satisfies the listed form rules (indefinite '
        'length iff constructed, strings > 1000 octets as 1000-octet primitive segments, sorted SET OF, FF for TRUE). '
        'Non-trivial = T constructed or tagged or a string >= 128 octets; distinct = distinct (T, v, mode).')
RULE += (' ' + "Also: the DER bytes are the same when BER (drawn mode and default options) and CER encoded the value first, and when der.encode is handed BER's mode options.")
ASSUMPTIONS = ['pv/core/x690.py implements X.690 correctly (self-tested on literal vectors at start-up and by DER->reader and '
               'BER-variant->reader round trips)',
               'BIT STRING types with named bits are not generated (DER 11.2.2 is not modelled by the library)']
SHARDS = {'quick': (16, 300), 'thorough': (16, 6000)}
BUDGET = {'quick': 100, 'thorough': 1500}
MIN_NONTRIVIAL = {'quick': 500, 'thorough': 5000}
CFG = {'long_str_pct': 5, 'huge_str_pct': 1}


def shards(tier):
    n, per = SHARDS[tier]
    return [{'examples': per, 'i': i} for i in range(n)]


def cer_form_rules(T, enc):
    """-> list of (rule, message) the CER output violates. enc must be readable by the reference."""
    out = []
    _v, tr = x690.read_traced(T, enc)
    opaque = [(r['start'], r['end']) for r in tr if r.get('any')]       # ANY contents are not the encoder's
    for top in x690.walk_all(enc):
        for n in x690.nodes(top):
            if any(a <= n.start and n.end <= b for a, b in opaque):
                continue
            if n.con != n.indefinite:
                out.append(('length-form', '%s form with %s length at %d' % (
                    'constructed' if n.con else 'primitive', 'indefinite' if n.indefinite else 'definite', n.start)))
                break
    for r in tr:
        k = r['T']['k']
        if k == 'BOOLEAN':
            c = enc[r['cstart']:r['end']]
            if c not in (b'\x00', b'\xff'):
                out.append(('true-octet', 'BOOLEAN contents %s' % c.hex()))
        elif k in ir.STRING_KINDS:
            total = sum(r['leaves'])
            if not r['con']:
                if total > 1000:
                    out.append(('segments', 'primitive %s of %d contents octets' % (k, total)))
            else:
                segs = r['segments']
                if any(c for c, _l in segs):
                    out.append(('segments', 'nested constructed segment in %s' % k))
                lens = [l for _c, l in segs]
                if not lens or any(l != 1000 for l in lens[:-1]) or not (1 <= lens[-1] <= 1000):
                    out.append(('segments', '%s segments of %s contents octets' % (k, lens)))
                if total <= 1000 and len(lens) == 1:
                    out.append(('segments', 'constructed %s of only %d contents octets' % (k, total)))
        elif k == 'SETOF':
            encs = [enc[a:b] for a, b in r['elements']]
            mx = max([len(e) for e in encs] or [0])
            padded = [e.ljust(mx, b'\x00') for e in encs]
            if padded != sorted(padded):
                out.append(('setof-order', 'SET OF members not in padded-octet order'))
    return out


def run_case(case):
    pref = case.get('real_pref')
    if pref is None:
        return _run_case(case)
    # the documented class-wide BER encoding preference for binary REALs; DER and CER have no such freedom
    from pyasn1.type import univ as _univ
    old = _univ.Real.binEncBase
    _univ.Real.binEncBase = pref
    try:
        return _run_case(case)
    finally:
        _univ.Real.binEncBase = old


def _run_case(case):
    T, v = case['T'], case['v']
    defMode, chunk = case['mode']
    fails = []

    def F(sub, kind, msg, sig='', obs=None):
        fails.append({'sub': sub, 'kind': kind, 'sig': sig, 'msg': msg, 'obs': obs})

    sch = build.schema(T)
    obj = build.value_from(sch, T, v)
    # (a) DER byte identity
    want = x690.der(T, v)
    if not ir.same(T, x690.read(T, want), v):
        raise harness.HarnessError('reference DER does not read back: %s' % ir.jdump(case)[:300])
    if case.get('ber_first'):
        # (the order in which a process uses the three codecs is not the library's business: here BER and CER go first)
        lib.encode('BER', obj, defMode=defMode, maxChunkSize=chunk)
        lib.encode('BER', obj)
        lib.encode('CER', obj)
    e = lib.encode('DER', obj)
    if not e.ok:
        F('der', 'raises', e.brief(), e.sig)
    elif e.value != want:
        F('der', 'bytes', 'der.encode=%s reference=%s' % (e.value.hex()[:160], want.hex()[:160]),
          obs={'lib': e.value, 'ref': want})
    # (the canonical encoders pin their length form and segment size: a caller who hands one option dict to all three codecs
    # still gets DER from the DER encoder)
    if e.ok and (not defMode or chunk):
        e_opt = lib.encode('DER', obj, defMode=defMode, maxChunkSize=chunk)
        if not e_opt.ok:
            F('der', 'raises', 'with defMode=%s maxChunkSize=%s: %s' % (defMode, chunk, e_opt.brief()), e_opt.sig)
        elif e_opt.value != e.value:
            F('der-options', 'bytes', 'der.encode(v, defMode=%s, maxChunkSize=%s)=%s differs from der.encode(v)=%s' % (
                defMode, chunk, e_opt.value.hex()[:120], e.value.hex()[:120]))
    # (b) BER / CER read back by the reference
    for codec, kw in (('BER', dict(defMode=defMode, maxChunkSize=chunk)), ('CER', {})):
        e = lib.encode(codec, obj, **kw)
        sub = codec.lower()
        if not e.ok:
            F(sub, 'raises', e.brief(), e.sig)
            continue
        try:
            back = x690.read(T, e.value)
        except x690.RefError as r:
            F(sub, 'unreadable', 'reference reader: %s %s | enc=%s' % (r.kind, r.msg, e.value.hex()[:160]), sig=r.kind,
              obs={'lib': e.value})
            continue
        if not ir.same(T, back, v):
            F(sub, 'value', 'reads back as %s, expected %s | enc=%s' % (absval.short(back), absval.short(v), e.value.hex()[:120]),
              obs={'got': back, 'lib': e.value})
            continue
        if codec == 'CER':
            for rule, msg in cer_form_rules(T, e.value):
                F('cer-form', rule, '%s | enc=%s' % (msg, e.value.hex()[:120]), obs={'lib': e.value})
    return fails


def replay(case):
    out = []
    for f in run_case(case):
        f = dict(f, case=ir.to_jsonable(case), obs=ir.to_jsonable(f.get('obs')))
        out.append(f)
    return out


def nontrivial(T, v):
    return ir.depth(T) >= 1 or ir.has_tags(T) or fz.max_string_octets(T, v) >= 128


def features(T, v, mode):
    f = ['depth=%d' % ir.depth(T)]
    if ir.has_tags(T):
        f.append('tagged')
    st, _hb = ir.tag_stack(T)
    kinds = ir.kinds_in(T)
    for k in ('SET', 'SETOF', 'REAL', 'BITSTRING', 'OID', 'CHOICE', 'ANY'):
        if k in kinds:
            f.append('kind:' + k)
    mx = fz.max_string_octets(T, v)
    if mx > 1000:
        f.append('string>1000')
    elif mx >= 128:
        f.append('string>=128')
    if any(n >= 31 for t in fz.type_nodes(T) for _m, _c, n in t.get('tags', ())):
        f.append('multi-octet-identifier')
    return f


def run_shard(desc, seed, tier, col):
    from hypothesis import strategies as st
    strat = st.tuples(gen.type_and_value(CFG), gen.ber_modes(), st.sampled_from([None, None, 8, 16]))

    def body(x):
        (T, v), mode, pref = x
        case = {'T': T, 'v': v, 'mode': list(mode)}
        if pref is not None and 'REAL' in ir.kinds_in(T):
            case['real_pref'] = pref
        if pref in (None, 8) and len(ir.jdump(v)) % 2:
            case['ber_first'] = True
        col.case({'T': T, 'v': v, 'm': list(mode)}, nontrivial(T, v), features(T, v, mode),
                 sample={'type': ir.show_type(T), 'value': absval.short(v, 200), 'ber_mode': list(mode),
                         'reference_der': x690.der(T, v).hex()[:120]})
        for f in run_case(case):
            col.fail(f['sub'], f['kind'], f['msg'], case, sig=f['sig'], obs=f.get('obs'))

    harness.run_given(strat, body, seed, desc['examples'], col)



# ---------------------------------------------------------------- known findings



def _f_ifnotempty(failure):
    """CER/DER drop constructed elements with empty contents anywhere below an OPTIONAL component."""
    if failure['sub'] not in ('cer', 'der'):
        return False
    case = fz.case_of(failure)
    T, v = case['T'], case['v']
    w = fz.cer_drop(T, v)
    if w is not fz.MISSING and ir.same(T, w, v):
        return False                      # the model predicts no misbehaviour for this case
    if not fz.well_formed(T, w):
        # a mandatory element vanished: the output is not an encoding of T any more
        return failure['kind'] in ('unreadable', 'value', 'bytes')
    if failure['sub'] == 'cer' and failure['kind'] == 'value' and failure.get('obs'):
        got = ir.from_jsonable(failure['obs']).get('got')
        return got is not None and ir.same(T, got, w)
    if failure['sub'] == 'der' and failure['kind'] == 'bytes':
        return ir.from_jsonable(failure['obs'])['lib'] == x690.der(T, w)
    return False






_MODEL_BASED = (_f_ifnotempty,)

FINDINGS = {
    'F01-stray-eoo': fz.by_neutralising(run_case, fz.explicit_over_nonindef_prim, fz.neutralise_explicit_prims,
                                        subs=('ber', 'cer', 'cer-form'), others=_MODEL_BASED),
    'F05-ifnotempty': _f_ifnotempty,
    'F07-real10-nr3': fz.by_neutralising(run_case, fz.real10_present, fz.neutralise_real10, subs=('der',),
                                         kinds=('bytes',), others=_MODEL_BASED),
}
