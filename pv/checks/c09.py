"""C09 - every valid BER form of a value decodes to that value."""
import zlib
from pv.core import ir, gen, build, absval, lib, harness, x690
from pv.core import findings as fz

PROP = 'C09'
LEVEL = 'exploration'
DESIGN_REF = 'DESIGN.md 4/C09'
RULE = ('Hypothesis draws (T, v) from U and one member of BER(T, v) from the reference writer with every X.690 choice point drawn '
        '(length form incl. over-long per element, definite/indefinite per constructed element and explicit tag, segmentation '
        'tree per string incl. nested and empty segments, TRUE octet, SET / SET OF order, DEFAULT present or omitted, unnormalised '
        'binary REAL mantissa); the variant is first validated by the reference reader; oracle: ber.decode(variant, asn1Spec=T) '
        'returns v with empty remainder. Non-trivial = at least one choice point taken differently from the canonical (DER) form; '
        'distinct = distinct variant bytes.')
RULE += (' ' + 'Also drawn: binary REAL in base 8 / 16 with scaling factor and each of the exponent length forms (one to three octets incl. sign extension, length-prefixed), decimal REAL as NR1 / NR2 / NR3, up to 126 length octets; one case in eight comes from a numbers-only universe. In one case in four about half of the OCTET STRING and character string leaves are built with the documented encoding= option (OCTET STRING: any codec, the wire is unaffected; character strings: utf-8 / utf-16-be / utf-32-be other than the type\'s own, the reference spells the characters with that codec).')
ASSUMPTIONS = ['pv/core/x690.py writes only encodings X.690 permits (choice points whose legality is not certain are not drawn: '
               'zero-segment constructed strings, non-minimal INTEGER/OID/tag numbers, non-zero unused bits, REAL bases 8/16)']
SHARDS = {'quick': (16, 250), 'thorough': (16, 6000)}
BUDGET = {'quick': 100, 'thorough': 1500}
MIN_NONTRIVIAL = {'quick': 500, 'thorough': 5000}
CFG = {'long_str_pct': 1, 'huge_str_pct': 1}


def shards(tier):
    n, per = SHARDS[tier]
    return [{'examples': per, 'i': i} for i in range(n)]


def variant(case, **overrides):
    return x690.ber(case['T'], case['v'], x690.Replay(case['script'], **overrides))


def run_case(case, **overrides):
    T, v = case['T'], case['v']
    enc = variant(case, **overrides)
    fails = []

    def F(sub, kind, msg, sig='', obs=None):
        fails.append({'sub': sub, 'kind': kind, 'sig': sig, 'msg': msg, 'obs': obs})

    try:
        back = x690.read(T, enc)
    except x690.RefError as e:
        raise harness.HarnessError('reference writer produced an encoding its reader rejects (%s %s): %s' % (e.kind, e.msg, enc.hex()[:200]))
    if not ir.same(T, back, v):
        raise harness.HarnessError('reference writer/reader disagree on %s' % enc.hex()[:200])
    sch = build.schema(T)
    d = lib.decode('BER', enc, sch)
    if not d.ok:
        F('decode', 'raises', '%s | enc=%s' % (d.brief(), enc.hex()[:200]), d.sig)
        return fails
    if d.rest != b'':
        F('decode', 'remainder', 'remainder %s | enc=%s' % (bytes(d.rest).hex()[:40], enc.hex()[:200]))
    try:
        got = absval.absval(T, d.value, sch)
    except absval.Shape as e:
        F('decode', 'value', 'shape: %s | enc=%s' % (e, enc.hex()[:200]), obs={'shape': str(e)[:200]})
        return fails
    if not ir.same(T, got, v):
        F('decode', 'value', 'value %s != expected %s | enc=%s' % (absval.short(got), absval.short(v), enc.hex()[:160]),
          obs={'got': got})
    return fails


def replay(case):
    return [dict(f, case=ir.to_jsonable(case), obs=ir.to_jsonable(f.get('obs'))) for f in run_case(case)]


def run_shard(desc, seed, tier, col):
    from hypothesis import strategies as st

    def body(x):
        (T, v), data = x
        # one case in four: string leaves built with the documented `encoding=` option (pure function of the drawn case)
        key = ir.jdump([ir.to_jsonable(T), ir.to_jsonable(v)])
        n_opt = 0
        if zlib.crc32(key.encode()) % 4 == 0:
            T, n_opt = ir.with_enc_opt(T, key)
        rec = x690.Recording(gen.HypChooser(data.draw))
        enc = x690.ber(T, v, rec)
        case = {'T': T, 'v': v, 'script': rec.script}
        if variant(case) != enc:
            raise harness.HarnessError('recorded choice script does not replay to the same variant')
        feats = sorted(k for k in rec.feat if k not in ('def',)) + (['encoding-option'] if n_opt else [])
        nontriv = any(k != 'indef' or rec.feat.get('def') for k in feats) or 'indef' in feats
        col.case(enc, nontriv, feats + ['depth=%d' % ir.depth(T)],
                 sample={'type': ir.show_type(T), 'value': absval.short(v, 160), 'variant': enc.hex()[:200],
                         'choice_points': dict(rec.feat)})
        col.begin(case)
        for f in run_case(case):
            col.fail(f['sub'], f['kind'], f['msg'], case, sig=f['sig'], obs=f.get('obs'))

    # one case in eight from a universe of numbers only: the choice points of REAL (base, scaling factor, the four exponent
    # length forms, decimal forms) and of the integers are met once in a few hundred general cases otherwise
    numeric = gen.type_and_value(dict(CFG, kinds=['REAL', 'REAL', 'REAL', 'INTEGER', 'ENUMERATED', 'BOOLEAN'], max_depth=2, real10_pct=25,
                                      real_wide_exp_pct=10))
    tv = st.one_of(*([gen.type_and_value(CFG)] * 7 + [numeric]))
    harness.run_given(st.tuples(tv, st.data()), body, seed, desc['examples'], col)



# ---------------------------------------------------------------- known findings









FINDINGS = {}
