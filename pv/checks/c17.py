"""C17 - native-Python codec round trip and Python-value encoding equivalence."""
from pyasn1 import error
from pyasn1.codec.native import encoder as nenc, decoder as ndec

from pv.core import ir, gen, build, absval, lib, harness, x690
from pv.core import findings as fz

PROP = 'C17'
LEVEL = 'exploration'
DESIGN_REF = 'DESIGN.md 4/C17'
RULE = ('Hypothesis draws (T, v) from U (without ANY; REAL values exactly representable as Python floats); value object obj built '
        'from v. Oracle (a): r = native.decode(native.encode(obj), asn1Spec=T) has the abstract content v (REALs compared as '
        'floats). Oracle (b): for BER, CER and DER, encode(py, asn1Spec=T) - py being the tree of built-in values the native '
        'encoder produced, i.e. with the keys of absent OPTIONAL members simply missing - equals encode(r) byte for byte. '
        'Non-trivial = T constructed, or an OPTIONAL member absent, or an empty string / bit string; distinct = distinct (T, v).')
RULE += (' ' + "Also: value objects that come out of construction histories (C04's), ENUMERATED leaves of the Python tree spelled by name, and the tree handed out by the native encoder scribbled over before the same value is converted again (results belong to the caller). Also: BER encoder modes on the value-plus-schema path; exponents to the ends of the double range; a sub-check for named numbers and named bits - two sibling types derived from one base name list by +, clone() or subtype(namedValues=), names given as Python strings, expected bytes computed from the case.")
ASSUMPTIONS = ['the "equivalent value object" of a Python tree is its native decoding under the same type (so float<->REAL '
               'conversion cannot produce a spurious difference)']
SHARDS = {'quick': (16, 250), 'thorough': (16, 6000)}
BUDGET = {'quick': 100, 'thorough': 1500}
MIN_NONTRIVIAL = {'quick': 500, 'thorough': 5000}
CFG = {'any': False, 'long_str_pct': 1, 'real10_pct': 0, 'float_reals': True}


def shards(tier):
    n, per = SHARDS[tier]
    return [{'examples': per, 'i': i} for i in range(n)]


def _as_float(x):
    """Correctly rounded Python float of a REAL of the IR (exact rational arithmetic; exponents are capped by the generator)."""
    from fractions import Fraction
    if x == 0:
        return 0.0
    if x in ('inf', '-inf'):
        return float(x)
    m, b, e = x
    if abs(e) > 1100:
        return float('inf') if (e > 0) == (m > 0) else (float('-inf') if e > 0 else 0.0)
    try:
        return float(Fraction(m) * Fraction(b) ** e)
    except OverflowError:
        return float('inf') if m > 0 else float('-inf')


def floatify(T, v):
    """Canonical form in which REALs are Python floats (as ('float', repr) leaves)."""
    def fn(t, x):
        if t['k'] == 'REAL':
            f = _as_float(x)
            return ('float', repr(f if f != 0 else 0.0))        # (a value that rounds to zero: the sign of zero is not content)
        return x
    T2 = fz._map_type(T, lambda t: None)
    for t in fz.type_nodes(T2):
        if t['k'] in ir.RECORD_KINDS:
            for c in t['comps']:
                if c['p'] == 'def':
                    c['d'] = fz.map_values(c['t'], c['d'], fn)
    return ir.canon(T2, fz.map_values(T2, v, fn))


def close(a, b):
    """Equality of two floatify() forms in which float leaves agree "up to rounding" (relative 1e-11: the float -> decimal
    conversion of Real.prettyIn multiplies by ten repeatedly)."""
    import math
    if isinstance(a, (tuple, list)) and isinstance(b, (tuple, list)):
        if len(a) == 2 and len(b) == 2 and a[0] == 'float' and b[0] == 'float':
            x, y = float(a[1]), float(b[1])
            return x == y or math.isclose(x, y, rel_tol=1e-11, abs_tol=0.0)
        return len(a) == len(b) and all(close(x, y) for x, y in zip(a, b))
    if isinstance(a, dict) and isinstance(b, dict):
        return a.keys() == b.keys() and all(close(a[k], b[k]) for k in a)
    return type(a) == type(b) and a == b


def run_case(case):
    T, v = case['T'], case['v']
    fails = []

    def F(sub, kind, msg, sig='', obs=None):
        fails.append({'sub': sub, 'kind': kind, 'sig': sig, 'msg': msg, 'obs': obs})

    sch = build.schema(T)
    obj = build.value_from(sch, T, v)
    if case.get('tape') is not None:
        # the value object comes out of a construction history (C04's: any order, top-down, CHOICE detours re-selected in place)
        from pv.checks import c04
        try:
            o2 = c04.build_with_history(c04.Tape(tape=case['tape']), sch, T, v)
            if absval.equal(T, o2, v, sch)[0]:
                obj = o2
        except Exception:
            pass
    try:
        py = nenc.encode(obj)
    except error.PyAsn1Error as e:
        F('native-encode', 'raises', '%s: %s' % (harness.exc_sig(e), str(e)[:160]), harness.exc_sig(e))
        return fails
    except Exception as e:
        F('native-encode', 'leak', '%s: %s' % (harness.exc_sig(e), str(e)[:160]), harness.exc_sig(e))
        return fails
    # what the native encoder hands out belongs to the caller: scribbling over one result (every list gets an element, every
    # mapping a key) leaves the next conversion of the same value as it was
    try:
        import copy
        keep = copy.deepcopy(py)
        scribble(nenc.encode(obj))
        again = nenc.encode(obj)
        if again != keep:
            F('native-encode', 'shared-state', 'after the caller changed an earlier result in place, encode(v) gives %s, before %s' % (
                absval.short(again, 100), absval.short(keep, 100)))
            py = keep
    except Exception as e:
        F('native-encode', 'leak', 'second conversion: %s: %s' % (harness.exc_sig(e), str(e)[:120]), harness.exc_sig(e))
    try:
        r = ndec.decode(py, asn1Spec=sch)
    except error.PyAsn1Error as e:
        F('native-decode', 'raises', '%s: %s | py=%s' % (harness.exc_sig(e), str(e)[:160], absval.short(py, 160)), harness.exc_sig(e))
        return fails
    except Exception as e:
        F('native-decode', 'leak', '%s: %s | py=%s' % (harness.exc_sig(e), str(e)[:160], absval.short(py, 160)), harness.exc_sig(e))
        return fails
    try:
        got = absval.absval(T, r, sch)
    except absval.Shape as e:
        F('native-roundtrip', 'shape', '%s | py=%s' % (e, absval.short(py, 160)))
        got = None
    if got is not None and not close(floatify(T, got), floatify(T, v)):
        F('native-roundtrip', 'value', 'native round trip gives %s, expected %s | py=%s' % (absval.short(got, 120), absval.short(v, 120), absval.short(py, 120)),
          obs={'got': got})
    if case.get('spell'):
        # the same tree with ENUMERATED leaves spelled by name - what T.clone() takes, the value-plus-schema path takes as well
        py2 = respell(T, py)
        if py2 is not None:
            py = py2
    variants = [('BER', {}), ('CER', {}), ('DER', {})]
    if case.get('mode'):
        # the BER encoder modes apply to the value-plus-schema path as they do to value objects
        variants.append(('BER', {'defMode': bool(case['mode'][0]), 'maxChunkSize': int(case['mode'][1])}))
    for codec, kw in variants:
        a = lib.encode(codec, py, asn1Spec=sch, **kw)
        b = lib.encode(codec, r, **kw)
        if kw:
            codec = 'BER-mode'
        if a.ok != b.ok:
            F(codec.lower() + '-pyvalue', 'one-raises', 'encode(py, asn1Spec) %s; encode(valueObject) %s | py=%s' % (a.brief(), b.brief(), absval.short(py, 120)),
              a.sig or b.sig)
        elif a.ok and a.value != b.value:
            F(codec.lower() + '-pyvalue', 'bytes', 'encode(py, asn1Spec)=%s encode(valueObject)=%s | py=%s' % (a.value.hex()[:100], b.value.hex()[:100], absval.short(py, 100)))
        elif not a.ok and a.status == 'leak':
            F(codec.lower() + '-pyvalue', 'leak', a.brief(), a.sig)
    return fails


def scribble(py):
    if isinstance(py, dict):
        for v in list(py.values()):
            scribble(v)
        py['__scribble__'] = 1
    elif isinstance(py, list):
        for v in py:
            scribble(v)
        py.append('__scribble__')


def respell(T, py):
    """py with every ENUMERATED leaf given by its name; None when nothing changed."""
    changed = [False]

    def go(t, x):
        k = t['k']
        if k == 'ENUMERATED' and isinstance(x, int) and not isinstance(x, bool):
            for nm, val in t['named']:
                if val == x:
                    changed[0] = True
                    return nm
            return x
        if k in ir.RECORD_KINDS and hasattr(x, 'items'):
            by = {c['name']: c['t'] for c in t['comps']}
            return type(x)((n, go(by[n], y) if n in by else y) for n, y in x.items())
        if k in ir.OF_KINDS and isinstance(x, (list, tuple)):
            return [go(t['of'], y) for y in x]
        if k == 'CHOICE' and hasattr(x, 'items'):
            by = {a['name']: a['t'] for a in t['alts']}
            return type(x)((n, go(by[n], y) if n in by else y) for n, y in x.items())
        return x
    out = go(T, py)
    return out if changed[0] else None


def run_names(case):
    """Named numbers and named bits on the value-plus-schema path: two sibling types derived from ONE base name list (extension
    with +, clone(), subtype(namedValues=)) map some of the same names to different numbers; a name given as a Python string
    under each type encodes to that type's number / bit positions - computed here from the case, not by the library - whatever
    the order in which the types are built and used. case: {'names': {'base': [[n, v]..], 'ext': [[[n, v]..], [[n, v]..]],
    'kind': 'ENUMERATED'|'INTEGER'|'BITSTRING', 'how': 0..2, 'order': [..], 'asks': [[type index, [names]]..]}}"""
    from pyasn1.type import namedval, univ as _u
    fails = []
    c = case['names']
    base = namedval.NamedValues(*[tuple(x) for x in c['base']])
    cls = {'ENUMERATED': _u.Enumerated, 'INTEGER': _u.Integer, 'BITSTRING': _u.BitString}[c['kind']]
    types, maps = [None, None], [None, None]
    for i in c['order']:
        ext = [tuple(x) for x in c['ext'][i]]
        if c['how'] == 0:
            nv = base + namedval.NamedValues(*ext)
            types[i] = cls(namedValues=nv)
        elif c['how'] == 1:
            types[i] = cls(namedValues=base.clone(*ext))
        else:
            types[i] = cls(namedValues=base).subtype(namedValues=namedval.NamedValues(*ext))
        maps[i] = dict(c['base'] + c['ext'][i]) if c['how'] != 2 else dict(c['ext'][i])
    for i, names in c['asks']:
        T_, mp = types[i], maps[i]
        names = [n for n in names if n in mp]
        if not names:
            continue
        if c['kind'] == 'BITSTRING':
            text = ', '.join(names)
            nbits = max(mp[n] for n in names) + 1
            val = 0
            for n in names:
                val |= 1 << (nbits - 1 - mp[n])
            want_ir, kind = (nbits, val), 'BITSTRING'
        else:
            text = names[0]
            want_ir, kind = mp[text], c['kind']
        want = x690.der(ir.mk(kind) if kind != 'ENUMERATED' else ir.mk('ENUMERATED', named=[[text, want_ir]]), want_ir)
        for codec in ('BER', 'DER'):
            a = lib.encode(codec, text, asn1Spec=T_)
            if not a.ok:
                fails.append({'sub': 'names', 'kind': 'raises', 'sig': a.sig, 'obs': None,
                              'msg': '%s.encode(%r, asn1Spec=type %d) %s' % (codec.lower(), text, i, a.brief())})
            elif a.value != want:
                fails.append({'sub': 'names', 'kind': 'bytes', 'sig': '', 'obs': None,
                              'msg': '%s.encode(%r, asn1Spec=type %d with %s) = %s, the names stand for %s' % (
                                  codec.lower(), text, i, sorted(mp.items())[:6], a.value.hex(), want.hex())})
    return fails


def replay(case):
    if case.get('names'):
        return [dict(f, case=ir.to_jsonable(case), obs=None) for f in run_names(case)]

    return [dict(f, case=ir.to_jsonable(case), obs=ir.to_jsonable(f.get('obs'))) for f in run_case(case)]


def nontrivial(T, v):
    if ir.depth(T) >= 1:
        return True
    for t, x in fz.present_nodes(T, v):
        if t['k'] in ir.STRING_KINDS and fz.octet_len(t, x) == 0:
            return True
    return False


def run_shard(desc, seed, tier, col):
    def body(x):
        T, v, tape, spell, mode = x
        case = {'T': T, 'v': v}
        if tape is not None:
            case['tape'] = tape
        if spell:
            case['spell'] = True
        if mode is not None:
            case['mode'] = list(mode)
        feats = ['depth=%d' % ir.depth(T)]
        for t, y in fz.present_nodes(T, v):
            if t['k'] in ir.RECORD_KINDS and any(c['p'] == 'opt' and c['name'] not in y for c in t['comps']):
                feats.append('absent-optional')
                break
        if any(t['k'] == 'BITSTRING' and y[0] == 0 for t, y in fz.present_nodes(T, v)):
            feats.append('empty-bitstring')
        if 'CHOICE' in ir.kinds_in(T):
            feats.append('choice')
        col.case(case, nontrivial(T, v) or 'absent-optional' in feats, feats, sample={'type': ir.show_type(T)[:200], 'value': absval.short(v, 160)})
        for f in run_case(case):
            col.fail(f['sub'], f['kind'], f['msg'], case, sig=f['sig'], obs=f.get('obs'))

    from hypothesis import strategies as st

    @st.composite
    def cases(draw):
        T, v = draw(gen.type_and_value(CFG))
        d = gen.D(draw, dict(gen.DEFAULT_CFG, **CFG))
        if d.pct(6):
            T, v = gen.choice_default_case(d)
        tape = None
        if d.pct(35):
            from pv.checks import c04
            t = c04.Tape(draw=draw)
            try:
                c04.build_with_history(t, build.schema(T), T, v)
                tape = t.tape
            except Exception:
                tape = t.tape
        return T, v, tape, 'ENUMERATED' in ir.kinds_in(T) and d.pct(50), (draw(gen.ber_modes()) if d.pct(60) else None)

    harness.run_given(cases(), body, seed, desc['examples'], col)

    @st.composite
    def name_cases(draw):
        d = gen.D(draw, gen.DEFAULT_CFG)
        pool = ['ok', 'retry', 'fail', 'urgent', 'active', 'x', 'y', 'z']
        kind = d.pick(['ENUMERATED', 'INTEGER', 'BITSTRING', 'BITSTRING'])
        nb = d.int(1, 2)
        base = [[pool[j], j] for j in range(nb)]
        hi = 9 if kind == 'BITSTRING' else 40
        ext = []
        for _ in range(2):
            names = pool[nb:nb + d.int(1, 4)]
            nums = []
            while len(nums) < len(names):
                x = d.int(nb, hi)
                if x not in nums:
                    nums.append(x)
            ext.append([[n, x] for n, x in zip(names, nums)])
        asks = [[d.int(0, 1), [d.pick(pool[:nb + 4]) for _ in range(d.int(1, 3))]] for _ in range(d.int(2, 5))]
        asks = [[i, sorted(set(ns), key=ns.index)] for i, ns in asks]
        return {'names': {'base': base, 'ext': ext, 'kind': kind, 'how': d.int(0, 2), 'order': d.pick([[0, 1], [1, 0]]), 'asks': asks}}

    def name_body(case):
        c = case['names']
        col.case(case, c['ext'][0] != c['ext'][1], ['names:' + c['kind'], 'derived-by:' + ('+', 'clone', 'subtype')[c['how']]],
                 sample={'kind': c['kind'], 'base': c['base'], 'extensions': c['ext'], 'asked': c['asks'][:3]})
        seen = set()
        for f in run_names(case):
            if (f['kind'], f['sig']) not in seen:
                seen.add((f['kind'], f['sig']))
                col.fail(f['sub'], f['kind'], f['msg'], case, sig=f['sig'])

    harness.run_given(name_cases(), name_body, seed + 7, max(30, desc['examples'] // 8), col)


FINDINGS = {}
