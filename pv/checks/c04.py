"""C04 - DER/CER bytes depend only on the abstract value, not on how it was built."""
from hypothesis import strategies as st
from pyasn1 import error
from pyasn1.codec.native import encoder as native_enc

from pv.core import ir, gen, build, absval, lib, harness, x690
from pv.core import findings as fz

PROP = 'C04'
LEVEL = 'exploration'
DESIGN_REF = 'DESIGN.md 4/C04'
RULE = ('Hypothesis draws (T, v) and two construction histories h1, h2 of v, each a program over the public API: components '
        'assigned in any order by name / position / item assignment / setComponents, SET OF members added in any order with '
        'append / extend / positional assignment (positions in any order), top-down construction (members reached through the '
        'instantiating accessors of the half-built parent and completed in place, with read-only uses of the parent in between), CHOICE alternatives selected directly or - after the '
        'finished value was encoded and printed once - re-selected in place from another alternative, DEFAULT components equal to their default assigned or left out, sub-values '
        'obtained by decoding a drawn BER variant, clone(cloneValueFlag=True) of intermediate objects, and read-only uses '
        '(BER/CER/DER/native encoding, str, prettyPrint, repr, iteration, keys/values/items, == and != against equal and '
        'different objects) interleaved anywhere. Oracle: der(h1) == der(h2) and cer(h1) == cer(h2) byte for byte; '
        'der(decode(der(h1))) == der(h1) and the same for CER. Non-trivial = the two histories differ as programs and T has a '
        'record with >= 2 components, a DEFAULT, or a SET OF with >= 2 members; distinct = distinct (T, v, h1, h2).')
RULE += (' ' + 'Also: the class-wide binEncBase preference on REAL leaves; a directed SET whose order depends on an alternative selected two CHOICE levels down. Also: operators and conversions of scalar objects (concatenation with bytes, slicing, arithmetic, hash, comparison) as read-only uses, and REAL leaves built from unnormalised mantissas (up to 64 trailing zeros / zero bits moved out of the exponent).')
ASSUMPTIONS = ['a history step "decode a BER variant" is used only when the decoded object has the intended abstract value '
               '(otherwise the case belongs to C09)']
SHARDS = {'quick': (16, 150), 'thorough': (16, 4000)}
BUDGET = {'quick': 100, 'thorough': 1500}
MIN_NONTRIVIAL = {'quick': 300, 'thorough': 5000}
CFG = {'long_str_pct': 1, 'any': False, 'real10_pct': 15, 'long_bits_pct': 12}


def shards(tier):
    n, per = SHARDS[tier]
    return [{'examples': per, 'i': i} for i in range(n)]


class Tape(object):
    """Choices of a history: drawn from Hypothesis while generating, read back from the tape on replay."""
    def __init__(self, draw=None, tape=None):
        self.draw = draw
        self.tape = [] if tape is None else list(tape)
        self.i = 0
        self.log = []
        self.fixups = []        # assignments that turn a detour (another CHOICE alternative) into the intended value, run last

    def value(self, T):
        """Some value of T (drawn while generating, read back from the tape on replay)."""
        if self.draw is not None:
            v = gen.draw_value(gen.D(self.draw, dict(gen.DEFAULT_CFG, **CFG)), T)
            self.tape.append(['val', ir.to_jsonable(v)])
            return v
        item = self.tape[self.i] if self.i < len(self.tape) else None
        self.i += 1
        if isinstance(item, list) and item and item[0] == 'val':
            return ir.from_jsonable(item[1])
        return None

    def int(self, a, b):
        if self.draw is not None:
            x = self.draw(st.integers(a, b))
            self.tape.append(x)
            return x
        x = self.tape[self.i] if self.i < len(self.tape) else a
        self.i += 1
        return min(max(x, a), b)

    def pct(self, p):
        return self.int(0, 99) < p

    def perm(self, n):
        items = list(range(n))
        out = []
        while items:
            out.append(items.pop(self.int(0, len(items) - 1)))
        return out


def readonly(t, o, T):
    """One read-only use of o."""
    r = t.int(0, 16)
    t.log.append('ro%d' % r)
    try:
        if r >= 14:
            # operators and conversions of scalar objects: they hand out new objects (or plain Python values) and leave the
            # operand as it was
            k = T['k']
            if k in ir.STRING_KINDS and k != 'BITSTRING':
                uses = [lambda: o + b'\xc3\xa9z', lambda: b'q\x00' + o, lambda: o * 2, lambda: o[0:1], lambda: bytes(o), lambda: o.asNumbers(),
                        lambda: o.asOctets(), lambda: o + o, lambda: hash(o), lambda: o == b'zz', lambda: list(iter(o)), lambda: o.clone(b'zz')]
            elif k == 'BITSTRING':
                uses = [lambda: o + o, lambda: o << 3, lambda: o >> 1, lambda: o[0:1], lambda: o.asOctets(), lambda: o.asInteger(), lambda: o.asBinary(),
                        lambda: hash(o), lambda: o == '101', lambda: o.clone('1')]
            elif k in ('INTEGER', 'ENUMERATED', 'BOOLEAN'):
                uses = [lambda: o + 1, lambda: 1 + o, lambda: -o, lambda: int(o), lambda: hash(o), lambda: o == 1, lambda: o < 2, lambda: o.clone(1),
                        lambda: float(o), lambda: o * 2]
            elif k == 'OID':
                uses = [lambda: o + (1,), lambda: (1, 3) + o, lambda: o[0:2], lambda: tuple(o), lambda: hash(o), lambda: o.isPrefixOf(o), lambda: len(o)]
            elif k == 'REAL':
                uses = [lambda: o + 1, lambda: o * 2, lambda: float(o), lambda: o == 1, lambda: hash(o), lambda: -o, lambda: abs(o), lambda: o.isInf]
            else:
                uses = [lambda: hash(o), lambda: o == o.clone()]
            uses[t.int(0, len(uses) - 1)]()
        elif r == 0:
            lib.encode('BER', o)
        elif r == 1:
            lib.encode('BER', o, defMode=False, maxChunkSize=3)
        elif r == 2:
            lib.encode('CER', o)
        elif r == 3:
            lib.encode('DER', o)
        elif r == 4:
            native_enc.encode(o)
        elif r == 5:
            str(o)
        elif r == 6:
            o.prettyPrint()
        elif r == 7:
            repr(o)
        elif r == 8:
            if T['k'] in ir.CONSTRUCTED_KINDS or T['k'] == 'CHOICE':
                list(iter(o))
        elif r == 9:
            if T['k'] in ir.RECORD_KINDS or T['k'] == 'CHOICE':
                list(o.keys())
                list(o.values())
                list(o.items())
        elif r == 10:
            o == o.clone(cloneValueFlag=True) if T['k'] in ir.CONSTRUCTED_KINDS or T['k'] == 'CHOICE' else o == o.clone()
        elif r == 11:
            o != o.clone()
        elif r == 12:
            if T['k'] in ir.CONSTRUCTED_KINDS:
                len(o)
        else:
            o.isValue
    except Exception:
        pass            # a read-only use may refuse (comparing a value with a schema, REALs beyond float range, ...);
                        # this property only demands that it does not change what o encodes to


def fill(t, o, T, v, depth):
    """Top-down construction: o is an existing object of (constructed) type T - fresh, or the placeholder an instantiating
    accessor handed out - and is completed in place; constructed members are reached through the parent (o[name], o[i]) and
    filled through that reference, with read-only uses of the half-built parent in between."""
    k = T['k']
    con = lambda ct: ct['k'] in ir.CONSTRUCTED_KINDS or ct['k'] == 'CHOICE'
    if k in ir.RECORD_KINDS:
        present = [(idx, c) for idx, c in enumerate(T['comps']) if c['name'] in v]
        for j in t.perm(len(present)):
            idx, c = present[j]
            if con(c['t']) and c['p'] != 'def' and t.pct(65):
                # (not for DEFAULT members: the accessor hands those out pre-filled with the default)
                child = o.getComponentByName(c['name'])              # documented: instantiates the member in place
                if t.pct(50):
                    readonly(t, o, T)
                fill(t, child, c['t'], v[c['name']], depth + 1)
                if t.pct(30):
                    readonly(t, o, T)
            else:
                o.setComponentByName(c['name'], construct(t, o.componentType[idx].asn1Object, c['t'], v[c['name']], depth + 1))
        if not present:
            o.clear()
    elif k in ir.OF_KINDS:
        if not v:
            o.clear()
        for i, x in enumerate(v):
            if con(T['of']) and t.pct(65):
                child = o.getComponentByPosition(i)
                if t.pct(40):
                    readonly(t, o, T)
                fill(t, child, T['of'], x, depth + 1)
            else:
                o.setComponentByPosition(i, construct(t, o.componentType, T['of'], x, depth + 1))
    else:
        name, inner = v
        idx = [a['name'] for a in T['alts']].index(name)
        at = T['alts'][idx]['t']
        if con(at) and t.pct(65):
            child = o.getComponentByName(name)
            if t.pct(40):
                readonly(t, o, T)
            fill(t, child, at, inner, depth + 1)
        else:
            o.setComponentByName(name, construct(t, o.componentType[idx].asn1Object, at, inner, depth + 1))
    t.log.append('top-down')


def construct(t, sch, T, v, depth=0):
    """Build a value object of v on schema sch following the tape."""
    k = T['k']
    if (k in ir.CONSTRUCTED_KINDS or k == 'CHOICE') and k != 'SETOF' and t.pct(20):
        o = sch.clone()
        fill(t, o, T, v, depth)
        return o
    # sub-value obtained by decoding a drawn BER variant
    if depth > 0 and k != 'ANY' and t.pct(12):
        ch = gen.HypChooser(t.draw) if t.draw is not None else None
        if ch is not None:
            rec = x690.Recording(ch)
            enc = x690.ber(T, v, rec)
            t.tape.append(['script', rec.script])
        else:
            item = t.tape[t.i] if t.i < len(t.tape) else None
            t.i += 1
            enc = x690.ber(T, v, x690.Replay(item[1])) if isinstance(item, list) and item and item[0] == 'script' else x690.der(T, v)
        d = lib.decode('BER', enc, sch)
        if d.ok and d.rest == b'' and absval.equal(T, d.value, v, sch)[0]:
            t.log.append('decoded')
            return d.value
        t.log.append('decode-unusable')
    if k in ir.RECORD_KINDS:
        o = sch.clone()
        if t.pct(50) or not v:
            o.clear()
        names = [c['name'] for c in T['comps']]
        todo = []
        for idx, c in enumerate(T['comps']):
            if c['name'] in v:
                if c['p'] == 'def' and ir.same(c['t'], v[c['name']], c['d']) and t.pct(50):
                    t.log.append('default-left-out')
                    continue
                todo.append((idx, c, v[c['name']]))
            elif c['p'] == 'def' and t.pct(40):
                t.log.append('default-assigned')
                todo.append((idx, c, c['d']))
        order = t.perm(len(todo))
        if order != sorted(order):
            t.log.append('permuted')
        for j in order:
            idx, c, cv = todo[j]
            sub = construct(t, o.componentType[idx].asn1Object, c['t'], cv, depth + 1)
            how = t.int(0, 4)
            if how == 0:
                o.setComponentByName(c['name'], sub)
            elif how == 1:
                o.setComponentByPosition(idx, sub)
            elif how == 2:
                o[c['name']] = sub
            elif how == 3:
                o[idx] = sub
            else:
                o.setComponents(**{c['name']: sub})
            if t.pct(25):
                readonly(t, o, T)
        if not todo and o._componentValues is build.univ.noValue:
            o.clear()
    elif k in ir.OF_KINDS:
        o = sch.clone()
        o.clear()
        order = t.perm(len(v)) if k == 'SETOF' else list(range(len(v)))
        if order != sorted(order):
            t.log.append('permuted')
        subs = [construct(t, o.componentType, T['of'], v[j], depth + 1) for j in order]
        how = t.int(0, 4)
        if how == 4 and len(subs) >= 2:
            # positions filled in any order (a position beyond the current length is accepted)
            for i in t.perm(len(subs)):
                o.setComponentByPosition(i, subs[i])
            t.log.append('positions-permuted')
        elif how == 4 or how == 0:
            for s_ in subs:
                o.append(s_)
        elif how == 1:
            o.extend(subs)
        elif how == 2:
            for i, s_ in enumerate(subs):
                o.setComponentByPosition(i, s_)
        else:
            for i, s_ in enumerate(subs):
                o[i] = s_
        if t.pct(25):
            readonly(t, o, T)
    elif k == 'CHOICE':
        o = sch.clone()
        name, inner = v
        idx = [a['name'] for a in T['alts']].index(name)
        sub = construct(t, o.componentType[idx].asn1Object, T['alts'][idx]['t'], inner, depth + 1)
        how = t.int(0, 2)
        detour = None
        if len(T['alts']) >= 2 and t.pct(20):
            # a detour: another alternative is selected first; the intended one is selected in place at the very end, after
            # the whole value has been put together and used (encoded, printed) once
            j = (idx + 1 + t.int(0, len(T['alts']) - 2)) % len(T['alts'])
            other = t.value(T['alts'][j]['t'])
            if other is not None:
                detour = construct(t, o.componentType[j].asn1Object, T['alts'][j]['t'], other, depth + 1)
                o.setComponentByPosition(j, detour)
                t.log.append('detour')
                t.fixups.append(lambda o=o, name=name, idx=idx, sub=sub, how=how: (
                    o.setComponentByName(name, sub) if how == 0 else o.setComponentByPosition(idx, sub) if how == 1 else o.__setitem__(name, sub)))
        if detour is not None:
            pass
        elif how == 0:
            o.setComponentByName(name, sub)
        elif how == 1:
            o.setComponentByPosition(idx, sub)
        else:
            o[name] = sub
    else:
        pv_ = build.py_scalar(T, v)
        if k == 'REAL' and isinstance(v, tuple) and t.pct(50):
            # the same number spelled with an unnormalised mantissa: trailing zeros (base 10) or zero bits (base 2) moved out of
            # the exponent
            z = (1, 5, 31, 32, 33, 40, 64, 32, 40)[t.int(0, 8)]
            pv_ = (v[0] * v[1] ** z, v[1], v[2] - z)
            t.log.append('respelled')
        o = sch.clone(pv_)
        if k == 'REAL' and isinstance(v, tuple) and v[1] == 2 and t.pct(35):
            # the documented per-object BER encoding preference of Real; the canonical codecs have no such freedom
            o.binEncBase = (2, 8, 16)[t.int(0, 2)]
            t.log.append('binEncBase')
    if t.pct(15) and not t.fixups:
        # (not while a detour is pending: its final assignment refers to the objects built so far)
        t.log.append('cloned')
        o = o.clone(cloneValueFlag=True) if k in ir.CONSTRUCTED_KINDS or k == 'CHOICE' else o.clone()
    if t.pct(20):
        readonly(t, o, T)
    return o


def build_with_history(t, sch, T, v):
    """One construction history of v following the tape t (drawn or replayed), detours undone at the end. -> object"""
    o = construct(t, sch, T, v)
    if t.fixups:
        for use in (lambda: lib.encode('DER', o), lambda: lib.encode('CER', o), lambda: o.prettyPrint()):
            try:
                use()
            except Exception:
                pass
        for fix in t.fixups:
            fix()
        t.log.append('reselected-in-place')
    return o


def run_case(case, col=None, tapes=None):
    T, v = case['T'], case['v']
    fails = []

    def F(sub, kind, msg, sig='', obs=None):
        fails.append({'sub': sub, 'kind': kind, 'sig': sig, 'msg': msg, 'obs': obs})

    sch = build.schema(T)
    objs, logs = [], []
    for i in (0, 1):
        t = tapes[i] if tapes is not None else Tape(tape=case['tapes'][i])
        case.setdefault('tapes', [[], []])[i] = t.tape
        try:
            o = construct(t, sch, T, v)
            if t.fixups:
                # the value with its detours is used once, then every detour is undone in place
                for use in (lambda: lib.encode('DER', o), lambda: lib.encode('CER', o), lambda: o.prettyPrint()):
                    try:
                        use()
                    except Exception:
                        pass
                for fix in t.fixups:
                    fix()
                t.log.append('reselected-in-place')
                if not absval.equal(T, o, v, sch)[0]:
                    # the library stored a copy of an intermediate object somewhere, so the in-place selection did not reach
                    # it: this history does not build v at all (nothing to compare)
                    if col is not None:
                        col.exclude('detour history does not arrive at v')
                    return fails
        except error.PyAsn1Error as e:
            F('construct', 'raises', 'history %d: a well-formed construction step raised %s: %s' % (i, harness.exc_sig(e), str(e)[:160]), harness.exc_sig(e))
            return fails
        except Exception as e:
            F('construct', 'leak', 'history %d: %s: %s' % (i, harness.exc_sig(e), str(e)[:160]), harness.exc_sig(e))
            return fails
        # (no separate content check here: whether the history built v is judged by what it encodes to)
        objs.append(o)
        logs.append(list(t.log))
    encs = {}
    for codec in ('DER', 'CER'):
        outs = [lib.encode(codec, o) for o in objs]
        if not all(x.ok for x in outs):
            if outs[0].ok != outs[1].ok:
                F(codec.lower(), 'one-raises', '%s.encode works for one history and raises for the other: %s / %s' % (codec.lower(), outs[0].brief(), outs[1].brief()),
                  (outs[0].sig or outs[1].sig))
            continue
        if outs[0].value != outs[1].value:
            ref = x690.der(T, v) if codec == 'DER' else x690.cer(T, v)
            who = 'h1 agrees with the reference' if outs[0].value == ref else ('h2 agrees with the reference' if outs[1].value == ref else 'neither equals the reference')
            F(codec.lower(), 'differ', '%s(h1)=%s  %s(h2)=%s (%s); steps h1=%s h2=%s' % (codec, outs[0].value.hex()[:100], codec, outs[1].value.hex()[:100], who,
                                                                                             logs[0][-6:], logs[1][-6:]))
        encs[codec] = outs[0].value
    for codec, e in encs.items():
        d = lib.decode(codec, e, sch)
        if not d.ok or d.rest != b'':
            if col is not None:
                col.exclude('fixpoint precondition: %s.decode of its own output fails (C02)' % codec.lower())
            continue
        e2 = lib.encode(codec, d.value)
        if not e2.ok:
            F(codec.lower() + '-fixpoint', 'raises', 're-encoding the decoded value raises %s' % e2.brief(), e2.sig)
        elif e2.value != e:
            F(codec.lower() + '-fixpoint', 'differ', '%s(decode(e))=%s, e=%s' % (codec, e2.value.hex()[:100], e.hex()[:100]))
    # a value obtained by decoding without a guiding type (untyped containers) and its clone
    if 'DER' in encs and _selfdesc(T):
        d = lib.decode('DER', encs['DER'])
        if d.ok and d.rest == b'' and hasattr(d.value, 'clone'):
            e1 = lib.encode('DER', d.value)
            if e1.ok and e1.value == encs['DER']:
                try:
                    cl = d.value.clone(cloneValueFlag=True) if hasattr(d.value, 'componentType') else d.value.clone()
                    e2 = lib.encode('DER', cl)
                    if not e2.ok:
                        F('schemaless-clone', 'raises', 'clone of the schemaless decoding cannot be encoded: %s | e=%s' % (e2.brief(), encs['DER'].hex()[:100]), e2.sig)
                    elif e2.value != e1.value:
                        F('schemaless-clone', 'differ', 'DER(clone)=%s, DER(original)=%s' % (e2.value.hex()[:100], e1.value.hex()[:100]))
                except Exception as ex:
                    F('schemaless-clone', 'raises', 'clone(cloneValueFlag=True) raised %s' % harness.exc_sig(ex), harness.exc_sig(ex))
    case['_logs'] = logs
    return fails


def _selfdesc(T):
    return not any(m == 'I' for t in fz.type_nodes(T) for m, _c, _n in t.get('tags', ())) and 'ANY' not in ir.kinds_in(T)


def replay(case):
    return [dict(f, case=ir.to_jsonable({k: x for k, x in case.items() if not k.startswith('_')}), obs=None) for f in run_case(case)]


def interesting(T):
    for t in fz.type_nodes(T):
        if t['k'] in ir.RECORD_KINDS and (len(t['comps']) >= 2 or any(c['p'] == 'def' for c in t['comps'])):
            return True
        if t['k'] == 'SETOF':
            return True
    return False


def run_shard(desc, seed, tier, col):
    @st.composite
    def cases(draw):
        T, v = draw(gen.type_and_value(CFG))
        d = gen.D(draw, dict(gen.DEFAULT_CFG, **CFG))
        if d.pct(10):
            # a SET whose order depends on which alternative of a nested untagged CHOICE is selected: the alternatives p, q of
            # the inner CHOICE lie on either side of the tag of member a
            ks = sorted(d.draw(st.lists(st.sampled_from(['BOOLEAN', 'INTEGER', 'OCTETSTRING', 'NULL', 'OID', 'UTF8String', 'IA5String',
                                                         'PrintableString', 'VisibleString', 'BMPString']), min_size=3, max_size=3, unique=True)),
                        key=lambda k: ir.UNIVERSAL[k])
            inner = ir.mk('CHOICE', alts=[{'name': 'p', 't': ir.mk(ks[0])}, {'name': 'q', 't': ir.mk(ks[2])}])
            outer = ir.mk('CHOICE', alts=[{'name': 'x', 't': inner}, {'name': 'y', 't': ir.mk('INTEGER', tags=[['I', 'C', 7]])}])
            T = ir.mk('SET', comps=[ir.comp('a', ir.mk(ks[1])), ir.comp('b', outer)])
            sel = d.pick(['p', 'q'])
            v = {'a': gen.draw_value(d, T['comps'][0]['t']), 'b': ('x', (sel, gen.draw_value(d, inner['alts'][0 if sel == 'p' else 1]['t'])))}
        elif d.pct(8):
            # DEFAULT components whose value is easily mistaken for another one: bit strings with leading / trailing zero bits,
            # empty strings, zero - present and equal to the default, so that "set explicitly" and "left out" must agree
            kinds = [('BITSTRING', d.pick([(4, 3), (9, 1), (8, 0), (3, 4), (0, 0), (16, 256)])), ('OCTETSTRING', d.pick([b'', b'\x00', b'\x00\x00'])),
                     ('INTEGER', d.pick([0, -1, 128, -129])), ('UTF8String', d.pick(['', ' ', 'a'])), ('BOOLEAN', d.pick([False, True]))]
            picked = [kinds[i] for i in sorted(set(d.int(0, 4) for _ in range(3)))]
            T = ir.mk(d.pick(['SEQUENCE', 'SET']), comps=[ir.comp('x', ir.mk('INTEGER', tags=[['I', 'C', 9]]))] +
                      [ir.comp('abcde'[i], ir.mk(k, tags=[['I', 'C', i]]), 'def', dv) for i, (k, dv) in enumerate(picked)])
            v = {'x': d.int(0, 9)}
            for c in T['comps'][1:]:
                if d.pct(75):
                    v[c['name']] = c['d']
        return T, v, draw(st.data())

    def body(x):
        T, v, data = x
        case = {'T': T, 'v': v}
        tapes = [Tape(draw=data.draw), Tape(draw=data.draw)]
        fl = run_case(case, col, tapes)
        logs = case.get('_logs', [[], []])
        differ = case.get('tapes') is not None and case['tapes'][0] != case['tapes'][1]
        feats = sorted(set(x for lg in logs for x in lg if not x.startswith('ro'))) + (['readonly-uses'] if any(x.startswith('ro') for lg in logs for x in lg) else [])
        col.case({'T': T, 'v': v, 't': case.get('tapes')}, bool(differ and interesting(T)), feats,
                 sample={'type': ir.show_type(T)[:200], 'value': absval.short(v, 120), 'h1_steps': logs[0][-10:], 'h2_steps': logs[1][-10:]})
        for f in fl:
            col.fail(f['sub'], f['kind'], f['msg'], {k: y for k, y in case.items() if not k.startswith('_')}, sig=f['sig'])

    harness.run_given(cases(), body, seed, desc['examples'], col)



def _run_for_attribution(case):
    c = {k: x for k, x in case.items() if not k.startswith('_')}
    return run_case(c)


FINDINGS = {}
