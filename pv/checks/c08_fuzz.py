"""atheris target for C08 (thorough tier). The semantic oracle of c08.one() runs inside the target; inputs that
violate it are saved to $PV_C08_CRASHDIR and the campaign goes on (one file per (kind, signature) bucket)."""
import hashlib
import os
import sys

sys.path.insert(0, os.path.dirname(os.path.dirname(os.path.dirname(os.path.abspath(__file__)))))
import atheris  # noqa: E402

with atheris.instrument_imports(include=['pyasn1']):
    import pyasn1.codec.ber.decoder  # noqa: F401
    import pyasn1.codec.cer.decoder  # noqa: F401
    import pyasn1.codec.der.decoder  # noqa: F401
    import pyasn1.codec.streaming  # noqa: F401
    import pyasn1.type.univ  # noqa: F401
    import pyasn1.type.char  # noqa: F401

import pv  # noqa: E402,F401
from pv.checks import c08  # noqa: E402

CRASHDIR = os.environ.get('PV_C08_CRASHDIR', '.')
SEEN = set()
SPECS = None


def target(data):
    global SPECS
    if SPECS is None:
        SPECS = c08.fixed_specs()
    if len(data) > 64:
        return
    from pv.core import x690
    if x690.max_depth(data) > c08.DEPTH_BOUND:
        return
    for sname, spec, _T in SPECS:
        for codec in c08.CODECS:
            r = c08.one(data, codec, 'oneshot', spec)
            if r is not None:
                key = (r[0], r[1])
                if key not in SEEN and len(SEEN) < 200:
                    SEEN.add(key)
                    name = hashlib.sha1(repr(key).encode() + data).hexdigest()[:16]
                    with open(os.path.join(CRASHDIR, name), 'wb') as f:
                        f.write(data)


if __name__ == '__main__':
    atheris.Setup(sys.argv, target)
    atheris.Fuzz()
