"""C16 - self-describing encodings decode faithfully without a schema."""
from pyasn1.type import base, univ, char, useful

from pv.core import ir, gen, build, absval, lib, harness, x690
from pv.core import findings as fz

PROP = 'C16'
LEVEL = 'exploration'
DESIGN_REF = 'DESIGN.md 4/C16'
RULE = ('Hypothesis draws (T, v) from the sub-universe of U without IMPLICIT tags, without ANY and without SET OF whose members '
        'carry differing tags (empty, single-member and homogeneous containers included); oracle on the reference DER of v decoded '
        'WITHOUT a guiding type: the result is an ASN.1 value object (not None, isValue), remainder empty, der.encode(result) is '
        'byte-identical, and its scalar leaves (universal tag, abstract scalar) read depth-first equal those of an independent TLV '
        'walk; for the reference CER and two BER forms (indefinite, indefinite + 3-octet chunks) the decoded leaves equal the DER '
        'leaves (in order; as a multiset when the type contains SET / SET OF). Non-trivial = T contains a container; distinct = '
        'distinct (T, v).')
RULE += (' ' + 'Also: the typed DER re-encoding as fixpoint (decode without type, encode, decode with type).')
ASSUMPTIONS = ['input encodings come from pv/core/x690.py, not from the library\'s encoders']
SHARDS = {'quick': (16, 250), 'thorough': (16, 6000)}
BUDGET = {'quick': 100, 'thorough': 1500}
MIN_NONTRIVIAL = {'quick': 500, 'thorough': 5000}
CFG = {'any': False, 'implicit': False, 'selfdesc': True, 'long_str_pct': 1, 'real10_pct': 0, 'constructed_pct': 75}

KIND_BY_TAG = {}
for _k, _n in ir.UNIVERSAL.items():
    if _k not in ('SEQUENCE', 'SET', 'SEQUENCEOF', 'SETOF'):
        KIND_BY_TAG[_n] = _k


def shards(tier):
    n, per = SHARDS[tier]
    return [{'examples': per, 'i': i} for i in range(n)]


def ref_leaves(enc):
    """(universal tag number, canonical scalar) of every primitive element, depth first (reference walk)."""
    out = []
    top, end = x690.walk(enc)
    rd = x690._Reader(enc)
    for n in x690.nodes(top):
        if n.con:
            continue
        if n.cls != 'U':
            raise harness.HarnessError('primitive element with a non-universal tag in a self-describing encoding')
        kind = KIND_BY_TAG[n.num]
        val, _q = rd.rd_base({'k': kind, 'tags': []}, False, n.ln, n.hdr_end, None)
        out.append((n.num, ir.canon({'k': kind}, val)))
    return out


def lib_leaves(obj, path='.'):
    if obj is None or not isinstance(obj, base.Asn1Item):
        raise absval.Shape('%s: not an ASN.1 object: %r' % (path, type(obj).__name__))
    if not obj.isValue:
        raise absval.Shape('%s: valueless %s' % (path, type(obj).__name__))
    if isinstance(obj, univ.Choice):
        return lib_leaves(obj.getComponent(), path + '/choice')
    if isinstance(obj, (univ.SequenceOf, univ.SetOf)):
        out = []
        for i in range(len(obj)):
            out += lib_leaves(obj.getComponentByPosition(i, instantiate=False), '%s[%d]' % (path, i))
        return out
    if isinstance(obj, (univ.Sequence, univ.Set)):
        out = []
        for i in range(len(obj)):
            c = obj.getComponentByPosition(i, default=None, instantiate=False)
            if c is not None and c is not base.noValue:
                out += lib_leaves(c, '%s.%d' % (path, i))
        return out
    if not len(obj.tagSet):
        raise absval.Shape('%s: scalar without tags' % path)
    inner = obj.tagSet[0]          # innermost tag (the base tag is not recovered by a schemaless decode)
    num = inner.tagId
    kind = KIND_BY_TAG.get(num)
    if kind is None or inner.tagClass != 0:
        raise absval.Shape('%s: scalar with innermost tag %s' % (path, inner))
    cls = build.SIMPLE_CLASS[kind]
    # (an ENUMERATED comes back as an Integer object carrying tag 10: same leaf, same re-encoding - accepted)
    if not isinstance(obj, cls) and not (kind == 'ENUMERATED' and isinstance(obj, univ.Integer)):
        raise absval.Shape('%s: %s object under universal tag %d' % (path, type(obj).__name__, num))
    return [(num, ir.canon({'k': kind}, absval.absval({'k': kind, 'tags': []}, obj, check_type=False)))]


def run_case(case):
    T, v = case['T'], case['v']
    fails = []

    def F(sub, kind, msg, sig='', obs=None):
        fails.append({'sub': sub, 'kind': kind, 'sig': sig, 'msg': msg, 'obs': obs})

    der = x690.der(T, v)
    want = ref_leaves(der)
    unordered = bool({'SET', 'SETOF'} & ir.kinds_in(T))
    forms = [('DER', 'DER', der), ('CER', 'CER', x690.cer(T, v)),
             ('BER-indef', 'BER', x690.ber(T, v, x690.Fixed(indef=True))),
             ('BER-chunked', 'BER', x690.ber(T, v, x690.Fixed(indef=True, chunk=3)))]
    for name, codec, enc in forms:
        d = lib.decode(codec, enc)
        if not d.ok:
            F(name, 'raises', '%s | enc=%s' % (d.brief(), enc.hex()[:160]), d.sig)
            continue
        r = d.value
        if r is None or r is base.noValue or not isinstance(r, base.Asn1Item):
            F(name, 'not-a-value', 'decode returned %r | enc=%s' % (r, enc.hex()[:160]))
            continue
        if d.rest != b'':
            F(name, 'remainder', 'remainder %s | enc=%s' % (bytes(d.rest).hex()[:40], enc.hex()[:160]))
        try:
            got = lib_leaves(r)
        except absval.Shape as e:
            F(name, 'shape', '%s | enc=%s' % (e, enc.hex()[:160]))
            continue
        except Exception as e:
            F(name, 'shape', 'walking the result raises %s | enc=%s' % (harness.exc_sig(e), enc.hex()[:160]), harness.exc_sig(e))
            continue
        same = (sorted(map(ir.jdump, got)) == sorted(map(ir.jdump, want))) if (unordered and name != 'DER') \
            else (ir.jdump(got) == ir.jdump(want))
        if not same:
            F(name, 'leaves', 'leaves %s, expected %s | enc=%s' % (absval.short(got), absval.short(want), enc.hex()[:120]))
        if name == 'DER':
            e = lib.encode('DER', r)
            if not e.ok:
                F('DER', 're-encode-raises', e.brief(), e.sig)
            elif e.value != der:
                F('DER', 're-encode', 'der.encode(decoded)=%s, input=%s' % (e.value.hex()[:160], der.hex()[:160]))
    # the library's own DER of the typed value (with its CHOICE levels and tags known) is a fixpoint of schemaless decode + encode
    try:
        obj = build.value_from(build.schema(T), T, v)
    except build.BuildError:
        raise
    except Exception:
        obj = None
    if obj is not None:
        e0 = lib.encode('DER', obj)
        if e0.ok:
            d = lib.decode('DER', e0.value)
            if d.ok and d.rest == b'' and isinstance(d.value, base.Asn1Item):
                e1 = lib.encode('DER', d.value)
                if e1.ok and e1.value != e0.value:
                    F('DER-typed', 're-encode', 'der.encode(decode(der.encode(typed value)))=%s, der.encode(typed value)=%s' % (
                        e1.value.hex()[:160], e0.value.hex()[:160]))
    return fails


def replay(case):
    return [dict(f, case=ir.to_jsonable(case), obs=ir.to_jsonable(f.get('obs'))) for f in run_case(case)]


def run_shard(desc, seed, tier, col):
    def body(x):
        T, v = x
        case = {'T': T, 'v': v}
        kinds = ir.kinds_in(T)
        feats = ['depth=%d' % ir.depth(T)] + (['tagged'] if ir.has_tags(T) else [])
        for t, x in fz.present_nodes(T, v):
            if t['k'] in ir.CONSTRUCTED_KINDS and len(x) == 0:
                feats.append('empty-container')
                break
        col.case(case, bool(kinds & {'SEQUENCE', 'SET', 'SEQUENCEOF', 'SETOF', 'CHOICE'}), feats,
                 sample={'type': ir.show_type(T), 'value': absval.short(v, 160), 'der': x690.der(T, v).hex()[:120]})
        col.begin(case)
        for f in run_case(case):
            col.fail(f['sub'], f['kind'], f['msg'], case, sig=f['sig'], obs=f.get('obs'))

    harness.run_given(gen.type_and_value(CFG), body, seed, desc['examples'], col)


FINDINGS = {}
