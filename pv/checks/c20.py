"""C20 - time values convert to and from datetime without changing the instant."""
import datetime
import re
from fractions import Fraction

from pyasn1 import error
from pyasn1.type import useful

from pv.core import ir, gen, lib, harness, x690

PROP = 'C20'
LEVEL = 'exploration'
DESIGN_REF = 'DESIGN.md 4/C20'
RULE = ('(a) Hypothesis draws datetimes (year 1..9999 for GeneralizedTime, 1969..2068 for UTCTime; boundary-biased date and time; '
        'millisecond values incl. 0, 1, 5, 50, 120, 999 ms, or whole seconds for UTCTime) with UTC offset none / 0 / +-1 / +-30 / '
        '+-60 / +-90 / +-330 / +-840 / any whole minute in +-14 h; oracle: X.fromDateTime(dt).asDateTime is aware, denotes the '
        'same instant and has the same offset (naive = UTC). (b) Hypothesis draws time strings from the X.680 grammar of both '
        'types (with / without minutes and seconds, fraction of 1..6 digits after "." or ",", Z / +-hhmm / +-hh / local); oracle '
        'for cer.encode and der.encode of X(s): a string that is not in UTC must be refused with PyAsn1Error; if the encoder '
        'returns, the contents end in Z, use "." as decimal mark, have no trailing zero and no dangling point in the fraction, '
        'and denote - read by an independent X.680 reader with exact rationals - the same instant as s. Non-trivial = non-zero '
        'offset (a) / a fraction or an offset in the string (b); distinct = distinct (type, datetime) / (type, codec, string).')
RULE += (' ' + 'Also: a returned datetime that cannot be asked for its offset is a violation; calendar boundaries (29 February, last day of months, 23:59:59).')
ASSUMPTIONS = ['the X.680 time grammar reader in this module is correct (fractions apply to the last unit present)']
SHARDS = {'quick': (16, 400), 'thorough': (16, 12000)}
BUDGET = {'quick': 100, 'thorough': 1500}
MIN_NONTRIVIAL = {'quick': 500, 'thorough': 5000}
UTC = datetime.timezone.utc
OFFSETS = [None, 0, 1, -1, 30, -30, 60, -60, 90, -90, 330, -330, 840, -840]
MILLIS = [0, 1, 5, 50, 120, 999]


def shards(tier):
    n, per = SHARDS[tier]
    return [{'examples': per, 'i': i, 'part': 'a' if i % 2 == 0 else 'b'} for i in range(n)]


# ------------------------------------------------------------------ independent X.680 time reader

_G = re.compile(r'^(\d{4})(\d\d)(\d\d)(\d\d)(?:(\d\d)(\d\d)?)?(?:[.,](\d+))?(Z|[+-]\d\d(?:\d\d)?)?$')
_U = re.compile(r'^(\d\d)(\d\d)(\d\d)(\d\d)(\d\d)(\d\d)?(Z|[+-]\d\d\d\d)$')


def instant(kind, s):
    """-> (seconds since 0001-01-01T00:00 UTC as a Fraction, is_utc(bool), offset minutes or None for local) or None."""
    if kind == 'GeneralizedTime':
        m = _G.match(s)
        if not m:
            return None
        y, mo, d, h, mi, se, fr, tz = m.groups()
        y = int(y)
    else:
        m = _U.match(s)
        if not m:
            return None
        yy, mo, d, h, mi, se, tz = m.groups()
        fr = None
        y = 1900 + int(yy) if int(yy) >= 69 else 2000 + int(yy)     # the window Python's %y (and the library) uses
    try:
        days = datetime.date(y, int(mo), int(d)).toordinal() - 1
    except ValueError:
        return None
    h = int(h)
    if h > 23 or (mi is not None and int(mi) > 59) or (se is not None and int(se) > 59):
        return None
    t = Fraction(days * 86400 + h * 3600)
    unit = 3600
    if mi is not None:
        t += int(mi) * 60
        unit = 60
        if se is not None:
            t += int(se)
            unit = 1
    if fr:
        t += Fraction(int(fr), 10 ** len(fr)) * unit
    if tz is None:
        return t, False, None
    if tz == 'Z':
        return t, True, 0
    sign = -1 if tz[0] == '-' else 1
    off = sign * (int(tz[1:3]) * 60 + (int(tz[3:5]) if len(tz) == 5 else 0))
    return t - off * 60, False, off


def dt_instant(dt):
    off = dt.utcoffset()
    offs = 0 if off is None else int(off.total_seconds())
    naive = dt.replace(tzinfo=None)
    days = naive.toordinal() - 1
    t = Fraction(days * 86400 + naive.hour * 3600 + naive.minute * 60 + naive.second) + Fraction(naive.microsecond, 10 ** 6)
    return t - offs, offs // 60


# ------------------------------------------------------------------ part (a)

def run_a(case):
    fails = []
    kind = case['kind']
    X = getattr(useful, kind)
    y, mo, d, h, mi, s, ms, off = case['dt']
    tz = None if off is None else datetime.timezone(datetime.timedelta(minutes=off))
    dt = datetime.datetime(y, mo, d, h, mi, s, ms * 1000, tzinfo=tz)
    want_t, want_off = dt_instant(dt)

    def F(kind_, msg, sig=''):
        fails.append({'sub': 'datetime-' + kind, 'kind': kind_, 'sig': sig, 'msg': msg + ' | dt=%s' % dt.isoformat(), 'obs': None})

    try:
        v = X.fromDateTime(dt)
        text = str(v)
        r = v.asDateTime
    except error.PyAsn1Error as e:
        F('raises', 'fromDateTime/asDateTime raised %s: %s' % (harness.exc_sig(e), str(e)[:120]), harness.exc_sig(e))
        return fails
    except Exception as e:
        F('leak', 'fromDateTime/asDateTime leaked %s: %s' % (harness.exc_sig(e), str(e)[:120]), harness.exc_sig(e))
        return fails
    try:
        naive = r.tzinfo is None or r.utcoffset() is None
        got_t, got_off = (None, None) if naive else dt_instant(r)
    except Exception as e:
        # the datetime handed back cannot even be asked for its offset (a tzinfo outside +-24 h, ...)
        F('unusable', 'the datetime returned for %r is unusable: %s: %s' % (text, type(e).__name__, str(e)[:100]), type(e).__name__)
        return fails
    if naive:
        F('naive', 'asDateTime returned a naive datetime (string %r)' % text)
        return fails
    if got_t != want_t:
        F('instant', 'round trip changes the instant by %s s (string %r, got %s)' % (float(got_t - want_t), text, r.isoformat()),
          'offset' if off else ('year<1000' if y < 1000 else 'other'))
    elif got_off != want_off:
        F('offset', 'round trip changes the offset from %s to %s min (string %r)' % (want_off, got_off, text))
    return fails


# ------------------------------------------------------------------ part (b)

def run_b(case):
    fails = []
    kind, s = case['kind'], case['s']
    X = getattr(useful, kind)
    src = instant(kind, s)
    if src is None:
        raise harness.HarnessError('generated time string not in the grammar: %r' % s)
    t0, is_utc, _off = src
    try:
        v = X(s)
    except error.PyAsn1Error:
        return fails
    for codec in ('CER', 'DER'):
        e = lib.encode(codec, v)
        sub = '%s-%s' % (codec.lower(), kind)
        if e.status == 'leak':
            fails.append({'sub': sub, 'kind': 'leak', 'sig': e.sig, 'obs': None, 'msg': '%s | s=%r' % (e.brief(), s)})
            continue
        if not e.ok:
            continue
        if not is_utc:
            fails.append({'sub': sub, 'kind': 'non-utc-accepted', 'sig': '', 'obs': None,
                          'msg': 'encoder accepted %r, which is not in UTC: %s' % (s, e.value.hex())})
            continue
        try:
            out = x690.read({'k': kind, 'tags': []}, e.value)
        except x690.RefError as r:
            fails.append({'sub': sub, 'kind': 'unreadable', 'sig': r.kind, 'obs': None, 'msg': 'output %s unreadable' % e.value.hex()})
            continue
        shape = None
        if not out.endswith('Z'):
            shape = 'does not end in Z'
        elif ',' in out:
            shape = 'decimal comma'
        elif '.' in out:
            frac = out[out.index('.') + 1:-1]
            if not frac:
                shape = 'dangling decimal point'
            elif frac.endswith('0'):
                shape = 'trailing zero in the fraction'
        if shape:
            fails.append({'sub': sub, 'kind': 'not-canonical', 'sig': shape, 'obs': {'s': s, 'out': out}, 'msg': 'output %r of %r: %s' % (out, s, shape)})
            continue
        dst = instant(kind, out)
        if dst is None:
            fails.append({'sub': sub, 'kind': 'not-a-time', 'sig': '', 'obs': None, 'msg': 'output %r of %r is not in the X.680 grammar' % (out, s)})
        elif dst[0] != t0:
            fails.append({'sub': sub, 'kind': 'instant', 'sig': '', 'obs': {'s': s, 'out': out},
                          'msg': 'output %r denotes another instant than %r (differs by %s s)' % (out, s, float(dst[0] - t0))})
    return fails


def run_case(case):
    return run_a(case) if 'dt' in case else run_b(case)


def replay(case):
    return [dict(f, case=ir.to_jsonable(case), obs=ir.to_jsonable(f.get('obs'))) for f in run_case(case)]


# ------------------------------------------------------------------ generation

def draw_dt(d, kind):
    if kind == 'UTCTime':
        y = d.pick([1969, 1970, 1999, 2000, 2049, 2050, 2068]) if d.pct(40) else d.int(1969, 2068)
    else:
        y = d.pick([1, 2, 99, 100, 999, 1000, 1899, 1900, 1970, 2000, 2038, 9999]) if d.pct(40) else d.int(1, 9999)
    mo, da = d.pick([(1, 1), (12, 31), (2, 28), (3, 1), (6, 15)]) if d.pct(40) else (d.int(1, 12), d.int(1, 28))
    if mo == 2 and da == 28 and (y % 4 == 0 and (y % 100 != 0 or y % 400 == 0)) and d.pct(50):
        da = 29
    h, mi, s = d.pick([(0, 0, 0), (23, 59, 59), (12, 0, 0)]) if d.pct(40) else (d.int(0, 23), d.int(0, 59), d.int(0, 59))
    ms = 0 if kind == 'UTCTime' else (d.pick(MILLIS) if d.pct(60) else d.int(0, 999))
    off = d.pick(OFFSETS) if d.pct(70) else d.int(-840, 840)
    # keep the UTC instant inside the representable range
    if off and (y <= 1 or y >= 9999 or (kind == 'UTCTime' and y in (1969, 2068))):
        off = 0
    return [y, mo, da, h, mi, s, ms, off]


def draw_string(d, kind):
    y, mo, da, h, mi, s, _ms, _off = draw_dt(d, kind)
    if kind == 'UTCTime':
        out = '%02d%02d%02d%02d%02d' % (y % 100, mo, da, h, mi)
        if d.pct(70):
            out += '%02d' % s
        r = d.int(0, 9)
        if r < 6:
            return out + 'Z'
        return out + '%s%02d%02d' % (d.pick('+-'), d.int(0, 13), d.pick([0, 30, 45, 59]))
    out = '%04d%02d%02d%02d' % (y, mo, da, h)
    form = d.int(0, 9)
    if form >= 2:
        out += '%02d' % mi
        if form >= 4:
            out += '%02d' % s
    if d.pct(55):
        n = d.int(1, 6)
        digits = ''.join(d.pick('0123456789') for _ in range(n)) if d.pct(60) else d.pick(['0', '00', '000', '5', '50', '500', '05', '005', '099', '105', '120', '999', '10000', '000001'])
        out += d.pick('..,') + digits
    r = d.int(0, 9)
    if r < 6:
        return out + 'Z'
    if r < 8:
        return out + '%s%02d%02d' % (d.pick('+-'), d.int(0, 13), d.pick([0, 30, 45, 59]))
    if r < 9:
        return out + '%s%02d' % (d.pick('+-'), d.int(0, 13))
    return out


def run_shard(desc, seed, tier, col):
    from hypothesis import strategies as st

    @st.composite
    def cases(draw):
        d = gen.D(draw, gen.DEFAULT_CFG)
        kind = d.pick(['GeneralizedTime', 'GeneralizedTime', 'UTCTime'])
        if desc['part'] == 'a':
            return {'kind': kind, 'dt': draw_dt(d, kind)}
        return {'kind': kind, 's': draw_string(d, kind)}

    def body(case):
        if 'dt' in case:
            nontriv = bool(case['dt'][7])
            feats = ['fromDateTime', case['kind'], 'offset' if case['dt'][7] else ('naive' if case['dt'][7] is None else 'utc'),
                     'ms' if case['dt'][6] else 'whole-second', 'year<1000' if case['dt'][0] < 1000 else 'year>=1000']
            sample = {'type': case['kind'], 'datetime': case['dt']}
        else:
            s = case['s']
            nontriv = ('.' in s or ',' in s or not s.endswith('Z'))
            feats = ['encode', case['kind'], 'fraction' if ('.' in s or ',' in s) else 'no-fraction',
                     'Z' if s.endswith('Z') else ('offset' if ('+' in s or '-' in s) else 'local')]
            sample = {'type': case['kind'], 'string': s}
        col.case(case, nontriv, feats, sample=sample)
        for f in run_case(case):
            col.fail(f['sub'], f['kind'], f['msg'], case, sig=f['sig'], obs=f.get('obs'))

    harness.run_given(cases(), body, seed, desc['examples'], col)



# ---------------------------------------------------------------- known findings

def f11_model(s):
    """What the listed defect makes of a UTC time string with a '.' fraction: walking back from the third fraction
    digit (or the last character) to the point, every '0' met is deleted; a point left dangling before Z goes too."""
    chars = list(s)
    if '.' not in chars:
        return s
    i = min(chars.index('.') + 4, len(chars) - 1)
    while chars[i] != '.':
        if chars[i] == '0':
            del chars[i]
        i -= 1
    i += 1
    if i < len(chars) and chars[i] == 'Z':
        del chars[i - 1]
    return ''.join(chars)


def _f_fraction_zeros(failure):
    """F11: the CER/DER time encoder removes every '0' among the first three fraction digits and keeps zeros
    beyond them (it treats the fraction as a count of milliseconds)."""
    case = failure['case']
    s = case.get('s')
    if not s or failure['kind'] not in ('instant', 'not-canonical') or not failure.get('obs'):
        return False
    m = re.search(r'[.](\d+)', s)
    if not (m and '0' in m.group(1)):
        return False
    return failure['obs'].get('out') == f11_model(s)


FINDINGS = {'F11-time-fraction-zeros': _f_fraction_zeros}
