"""C11 - decoding result does not depend on the kind of input object."""
import gzip
import io
import os
import tempfile

from pyasn1 import error
from pyasn1.type import base as _base
from pyasn1.codec import streaming
from pyasn1.type import univ

from pv.core import ir, gen, build, absval, lib, harness, x690, streams, mutate
from pv.core import findings as fz

PROP = 'C11'
LEVEL = 'exploration'
DESIGN_REF = 'DESIGN.md 4/C11'
RULE = ('(a) Hypothesis draws byte strings: reference encodings of values from U (with tails), large encodings whose sizes straddle '
        'multiples of io.DEFAULT_BUFFER_SIZE (one big element, wide/deep definite and indefinite containers, many small top-level '
        'items) and mutations of them; each is presented as bytes, io.BytesIO, OctetString, Any, an open binary file, a gzip '
        'reader, a BufferedReader over a non-seekable raw stream and the bare non-seekable raw stream; oracle: one-shot decode '
        'gives the same (value, remainder, error class) and StreamingDecoder the same list of values and final outcome as for '
        'bytes / BytesIO. (b) A Hypothesis rule-based state machine drives CachingStreamWrapper over a non-seekable raw stream '
        'with read(n) / read(-1) / peek(n) / mark / seek back to >= mark / tell and compares every returned octet string and '
        'position with a seekable model (the model follows the wrapper\'s documented renumbering when the cache is trimmed). '
        'Non-trivial = input longer than the buffer or invalid (a); histories with a backward seek after a mark (b); distinct = '
        'distinct (input, kind) / distinct histories.')
RULE += (' ' + 'Also: a non-blocking pipe kind (bursts at element boundaries, idle polls), a pipe with 3-octet reads, end-of-octets markers at k*8192-2..+1, and the wrapper machine over a non-blocking raw source against a seekable stream fed alike.')
ASSUMPTIONS = ['the outcome for bytes / io.BytesIO input is the reference (differential oracle within the library)']
SHARDS = {'quick': (12, 36, 4, 80), 'thorough': (12, 1200, 4, 2500)}
BUDGET = {'quick': 100, 'thorough': 1500}
MIN_NONTRIVIAL = {'quick': 200, 'thorough': 2000}
CFG = {'long_str_pct': 2, 'max_depth': 2}
TECHNIQUE = 'differential property-based testing over substrate kinds + Hypothesis rule-based state machine for the caching wrapper'
BUF = io.DEFAULT_BUFFER_SIZE


def shards(tier):
    n1, per1, n2, per2 = SHARDS[tier]
    return [{'mode': 'kinds', 'examples': per1} for _ in range(n1)] + [{'mode': 'wrapper', 'examples': per2} for _ in range(n2)]


# ------------------------------------------------------------------ (a) substrate kinds

KINDS = ('BytesIO', 'OctetString', 'Any', 'file', 'gzip', 'buffered-pipe', 'pipe', 'trickle-pipe')


def make_substrate(kind, b, tmpdir):
    if kind == 'BytesIO':
        return io.BytesIO(b), None
    if kind == 'OctetString':
        return univ.OctetString(b), None
    if kind == 'Any':
        return univ.Any(b), None
    if kind == 'file':
        path = os.path.join(tmpdir, 'in.ber')
        with open(path, 'wb') as f:
            f.write(b)
        fh = open(path, 'rb')
        return fh, fh
    if kind == 'gzip':
        path = os.path.join(tmpdir, 'in.gz')
        with gzip.open(path, 'wb') as f:
            f.write(b)
        fh = gzip.open(path, 'rb')
        return fh, fh
    if kind == 'buffered-pipe':
        return io.BufferedReader(streams.WholePipe(b)), None
    if kind == 'pipe':
        return streams.WholePipe(b), None
    if kind == 'trickle-pipe':
        # a blocking pipe that hands out at most 3 octets per read (short reads); streaming mode only: the one-shot
        # decoder gives up at the first underrun by design
        return streams.WholePipe(b, max_read=3), None
    raise ValueError(kind)


def snap(T, obj, spec):
    if obj is None or not isinstance(obj, _base.Asn1Item):
        return 'non-value:%r' % type(obj).__name__
    try:
        if spec is not None:
            return ir.jdump(ir.canon(T, absval.absval(T, obj, spec)))
    except Exception:
        pass
    e = lib.encode('DER', obj)
    return 'DER:' + (e.value.hex() if e.ok else e.brief())


def oneshot(codec, sub, T, spec):
    d = lib.decode(codec, sub, spec)
    if d.ok:
        return ('ok', snap(T, d.value, spec), bytes(d.rest))
    return (d.errclass(),)


def streamed(codec, sub, T, spec):
    items, final = lib.stream_all(codec, sub, spec, max_items=200000)
    items = [x for x in items if not isinstance(x, error.SubstrateUnderrunError)]    # the caller just retries
    return ([snap(T, x, spec) for x in items], 'stop' if final == 'stop' else final.errclass())


def streamed_nonblocking(codec, b, T, spec):
    """The octets arrive on a non-blocking non-seekable source in bursts that end at the boundaries of top-level elements (and
    once in the middle), with three idle polls before each further burst; then the source closes."""
    cuts = set()
    try:
        for top in x690.walk_all(b):
            cuts.add(top.end)
    except x690.RefError:
        pass
    cuts = sorted(c for c in (cuts | {len(b) // 2}) if 0 < c < len(b))[:40]
    st = streams.PipeFeed()
    bursts = [b[a:z] for a, z in zip([0] + cuts, cuts + [len(b)])]
    st.feed_bytes(bursts.pop(0) if bursts else b'')
    if not bursts:
        st.finish()
    items, final, idle, steps = [], 'stop', 0, 0
    try:
        dec = lib.DEC[codec].StreamingDecoder(st, asn1Spec=spec) if spec is not None else lib.DEC[codec].StreamingDecoder(st)
        for x in dec:
            steps += 1
            if steps > 50 * (len(cuts) + 2) + 20 * len(b) + 100:
                final = 'livelock'
                break
            if isinstance(x, error.SubstrateUnderrunError):
                idle += 1
                if idle >= 3 and not st.eof:
                    idle = 0
                    if bursts:
                        st.feed_bytes(bursts.pop(0))
                    if not bursts:
                        st.finish()
                continue
            items.append(snap(T, x, spec))
    except error.PyAsn1Error as ex:
        final = lib.Out('err', exc=ex).errclass()
    except Exception as ex:
        final = 'leak:' + harness.exc_sig(ex)
    return (items, final)


def run_case(case, col=None):
    T, b, codec = case['T'], case['b'], case['codec']
    fails = []

    def F(sub, kind, msg, sig='', obs=None):
        fails.append({'sub': sub, 'kind': kind, 'sig': sig, 'msg': msg, 'obs': obs})

    sch = build.schema(T) if T is not None else None
    base1 = oneshot(codec, b, T, sch)
    base2 = streamed(codec, io.BytesIO(b), T, sch)
    kinds = KINDS + ('nonblocking-pipe',) if case.get('kind') is None else [case['kind']]
    with tempfile.TemporaryDirectory(prefix='pv_c11_') as tmp:
        for kind in kinds:
            for mode, base, fn in (('oneshot', base1, oneshot), ('stream', base2, streamed)):
                if mode == 'oneshot' and kind in ('trickle-pipe', 'nonblocking-pipe'):
                    continue
                if kind == 'trickle-pipe' and len(b) > 3000:
                    continue
                if kind == 'nonblocking-pipe':
                    if len(b) > BUF - 200:
                        continue            # (large inputs behind the caching wrapper: known finding F09, judged on the other kinds)
                    got = streamed_nonblocking(codec, b, T, sch)
                    sub, closer = None, None
                else:
                    sub, closer = make_substrate(kind, b, tmp)
                    try:
                        got = fn(codec, sub, T, sch)
                    finally:
                        if closer is not None:
                            closer.close()
                if col is not None:
                    col.case(b[:200] + repr((len(b), kind, mode, case.get('label'))).encode(), len(b) > BUF or case.get('invalid', False),
                             ['kind:' + kind, mode, 'size>buffer' if len(b) > BUF else 'size<=buffer', 'invalid' if case.get('invalid') else 'valid',
                              'shape:' + str(case.get('label'))],
                             sample={'octets': len(b), 'head': b[:24].hex(), 'kind': kind, 'mode': mode, 'shape': case.get('label'),
                                     'type': ir.show_type(T)[:160] if T is not None else None})
                if got != base:
                    F('%s-%s' % (mode, kind), 'differs', '%s of %d octets (%s): %s input gives %s, bytes/BytesIO gives %s'
                      % (mode, len(b), case.get('label'), kind, brief(got), brief(base)), sig='%s/%s' % (short_out(got), short_out(base)),
                      obs={'kind': kind, 'mode': mode})
    return fails


def short_out(o):
    if o and o[0] == 'ok':
        return 'ok'
    if isinstance(o[0], list):
        return '%s' % o[1]
    return str(o[0])


def brief(o):
    if o and o[0] == 'ok':
        return '(value %s.., remainder %d octets)' % (o[1][:40], len(o[2]))
    if isinstance(o[0], list):
        return '(%d objects then %s)' % (len(o[0]), o[1])
    return str(o)


def replay(case):
    if case.get('wrapper'):
        run = run_wrapper_nonblocking if case.get('nb') else run_wrapper_history
        return [dict(f, case=case) for f in run(case['data_len'], case['ops'])]
    return [dict(f, case=ir.to_jsonable(case), obs=ir.to_jsonable(f.get('obs'))) for f in run_case(case)]


def big_inputs(d):
    """Large valid encodings with sizes straddling multiples of the buffer size. -> (label, T, bytes, codec)"""
    k = d.pick([1, 1, 2, 3])
    delta = d.pick([-3, -2, -1, 0, 1, 2, 3, 17])
    target = BUF * k + delta
    shape = d.pick(['big-octet-string', 'seqof-definite', 'seqof-indefinite', 'many-top-level', 'nested-definite', 'set-indefinite-strings',
                    'eoo-at-boundary', 'eoo-at-boundary'])
    INT = ir.mk('INTEGER')
    if shape == 'eoo-at-boundary':
        # an end-of-octets marker that starts exactly at, just before or just after a multiple of the buffer size (a reader that
        # looks ahead through a buffer sees only part of it), at top level or one level down
        nested = d.pct(50)
        T = ir.mk('SEQUENCE', comps=[ir.comp('a', ir.mk('OCTETSTRING')), ir.comp('b', INT)])
        if nested:
            T = ir.mk('SEQUENCE', comps=[ir.comp('in', T), ir.comp('z', INT)])
        at = BUF * k + d.pick([-2, -1, -1, 0, 1])
        fixed = 2 + 4 + 3 + (2 if nested else 0)            # headers before the marker, without the string contents
        v = {'a': (d.bytes(16) * (at // 16 + 2))[:at - fixed], 'b': 5}
        if nested:
            v = {'in': v, 'z': 6}
        enc = x690.ber(T, v, x690.Fixed(indef=True, chunk=0))
        if enc[at:at + 2] != b'\x00\x00' or enc[at - 3:at] != b'\x02\x01\x05':
            raise harness.HarnessError('end-of-octets marker not where it was meant to be')
        return shape, T, enc, 'BER'
    if shape == 'big-octet-string':
        T = ir.mk('OCTETSTRING')
        hdr = 4
        v = (d.bytes(16) * (target // 16 + 2))[:max(1, target - hdr)]
        return shape, T, x690.der(T, v), 'BER'
    if shape in ('seqof-definite', 'seqof-indefinite'):
        T = ir.mk('SEQUENCEOF', of=INT)
        v = [d.int(-70000, 70000) for _ in range(7)] * (target // (7 * 4) + 1)
        enc = x690.der(T, v) if shape == 'seqof-definite' else x690.cer(T, v)
        return shape, T, enc, 'BER'
    if shape == 'many-top-level':
        T = ir.mk('SEQUENCE', comps=[ir.comp('a', INT), ir.comp('b', ir.mk('OCTETSTRING'), 'opt')])
        unit = [x690.der(T, {'a': d.int(0, 300), 'b': d.bytes(d.int(0, 9))}), x690.cer(T, {'a': d.int(-5, 5)})]
        out = b''
        i = 0
        while len(out) < target:
            out += unit[i % 2]
            i += 1
        return shape, T, out, 'BER'
    if shape == 'nested-definite':
        T = ir.mk('SEQUENCE', comps=[ir.comp('a', ir.mk('SEQUENCEOF', of=ir.mk('SEQUENCE', comps=[ir.comp('x', INT), ir.comp('y', ir.mk('UTF8String'))]))),
                                      ir.comp('z', INT)])
        n = target // 14 + 1
        v = {'a': [{'x': i, 'y': 'abcdefg'} for i in range(n)], 'z': 7}
        return shape, T, x690.der(T, v), 'BER'
    T = ir.mk('SETOF', of=ir.mk('OCTETSTRING'))
    v = [d.bytes(5) * 300 for _ in range(target // 1500 + 1)]
    return shape, T, x690.cer(T, v), 'BER'


def run_shard(desc, seed, tier, col):
    if desc['mode'] == 'wrapper':
        return run_wrapper_shard(desc, seed, tier, col)
    from hypothesis import strategies as st

    @st.composite
    def cases(draw):
        d = gen.D(draw, gen.DEFAULT_CFG)
        r = d.int(0, 9)
        if r < 5:
            label, T, b, codec = big_inputs(d)
            case = {'T': T, 'b': b, 'codec': codec, 'label': label}
        else:
            ev = draw(gen.encoded_values(CFG, 1, 3))
            b = b''.join(ev['encs'])
            if d.pct(40):
                b += d.bytes(d.int(1, 6))
            case = {'T': ev['T'], 'b': b, 'codec': 'BER', 'label': 'small'}
        if d.pct(35):
            case['b'] = mutate.mutate(d, case['b'])
            case['invalid'] = True
            case['label'] += '+mutated'
        if d.pct(15):
            case['T'] = None
        return case

    def body(case):
        col.begin(case)
        for f in run_case(case, col):
            col.fail(f['sub'], f['kind'], f['msg'], dict(case, kind=f['obs']['kind']), sig=f['sig'], obs=f.get('obs'))

    harness.run_given(cases(), body, seed, desc['examples'], col)


# ------------------------------------------------------------------ (b) the caching wrapper against a seekable model

def pattern(n):
    return bytes((i * 7 + (i >> 8)) & 0xff for i in range(n))


def run_wrapper_history(data_len, ops):
    """ops: list of [name, arg]. -> list of failures (first divergence only)."""
    data = pattern(data_len)
    raw = streams.WholePipe(data)
    w = streaming.CachingStreamWrapper(raw)
    pos = 0           # model position (absolute)
    base = 0          # absolute position of the wrapper's origin
    mark = 0          # absolute marked position
    hist = []
    for name, arg in ops:
        hist.append([name, arg])
        try:
            if name == 'read':
                got = w.read(arg)
                want = data[pos:] if arg < 0 else data[pos:pos + arg]
                pos += len(want)
                if got != want:
                    return [_wf('read', 'read(%s) returned %d octets %s.., model %d octets %s..' % (arg, len(got), got[:8].hex(), len(want), want[:8].hex()), data_len, hist)]
            elif name == 'peek':
                got = w.peek(arg)
                want = data[pos:pos + arg]
                if got != want:
                    return [_wf('peek', 'peek(%s) returned %d octets %s.., model %d octets %s..' % (arg, len(got), got[:8].hex(), len(want), want[:8].hex()), data_len, hist)]
            elif name == 'mark':
                w.markedPosition = w.tell()
                mark = pos
                if pos - base > BUF:       # documented: the cache is dropped and positions restart at the mark
                    base = pos
                if w.markedPosition != mark - base:
                    return [_wf('mark', 'markedPosition %s, model %s' % (w.markedPosition, mark - base), data_len, hist)]
            elif name == 'seek':
                # arg in [0, 1]: fraction of the way back from the current position to the mark
                target = pos - int((pos - mark) * arg)
                w.seek(target - base)
                pos = target
            if w.tell() != pos - base:
                return [_wf('tell', 'after %s(%s): tell() %s, model %s' % (name, arg, w.tell(), pos - base), data_len, hist)]
        except Exception as ex:
            return [_wf('raises', '%s(%s) raised %s' % (name, arg, harness.exc_sig(ex)), data_len, hist, harness.exc_sig(ex))]
    return []


def run_wrapper_nonblocking(data_len, ops):
    """The wrapper over a NON-BLOCKING raw source (reads may come back short, or None while nothing has arrived) against a
    seekable non-blocking stream fed the same octets at the same moments. ops: [name, arg], name in feed / read / peek / mark /
    seek / finish. -> list of failures (first divergence only)."""
    data = pattern(data_len)
    raw = streams.PipeFeed()
    w = streaming.CachingStreamWrapper(raw)
    m = streams.SeekableFeed()
    fed = 0
    mark = 0
    hist = []
    for name, arg in ops:
        hist.append([name, arg])
        try:
            if name == 'feed':
                chunk = data[fed:fed + arg]
                fed += len(chunk)
                raw.feed_bytes(chunk)
                m.feed_bytes(chunk)
                continue
            if name == 'finish':
                raw.finish()
                m.finish()
                continue
            if m.tell() - mark > BUF // 2:
                continue                       # stay clear of the cache trimming region (known finding F09)
            if name == 'read':
                got, want = w.read(arg), m.read(arg)
                if got != want:
                    return [_wf('nb-read', 'read(%s) returned %r, a seekable stream fed alike returns %r' % (arg, _b(got), _b(want)), data_len, hist, nb=True)]
            elif name == 'peek':
                got = w.peek(arg)
                p = m.tell()
                want = m.read(arg)
                m.seek(p)
                if (got or b'') != (want or b''):
                    return [_wf('nb-peek', 'peek(%s) returned %r, model %r' % (arg, _b(got), _b(want)), data_len, hist, nb=True)]
            elif name == 'mark':
                w.markedPosition = w.tell()
                mark = m.tell()
            elif name == 'seek':
                target = m.tell() - int((m.tell() - mark) * arg)
                w.seek(target)
                m.seek(target)
            if w.tell() != m.tell():
                return [_wf('nb-tell', 'after %s(%s): tell() %s, model %s' % (name, arg, w.tell(), m.tell()), data_len, hist, nb=True)]
        except Exception as ex:
            return [_wf('nb-raises', '%s(%s) raised %s' % (name, arg, harness.exc_sig(ex)), data_len, hist, harness.exc_sig(ex), nb=True)]
    return []


def _b(x):
    return None if x is None else (bytes(x[:10]).hex() + ('..(%d)' % len(x) if len(x) > 10 else ''))


def _wf(kind, msg, data_len, hist, sig='', nb=False):
    return {'sub': 'wrapper', 'kind': kind, 'sig': sig, 'msg': msg + ' | %d-octet stream, history %s' % (data_len, hist[-8:]),
            'obs': None, 'case': {'wrapper': True, 'nb': nb, 'data_len': data_len, 'ops': hist}}


def run_wrapper_shard(desc, seed, tier, col):
    import hypothesis
    from hypothesis import strategies as st
    from hypothesis.stateful import RuleBasedStateMachine, rule, initialize, run_state_machine_as_test

    sizes = st.sampled_from([1, 1, 2, 3, 7, 100, 1000, BUF - 1, BUF, BUF + 1, 2 * BUF + 5])

    class Machine(RuleBasedStateMachine):
        def __init__(self):
            RuleBasedStateMachine.__init__(self)
            self.ops = []
            self.data_len = 0
            self.failed = False

        @initialize(n=st.sampled_from([0, 1, 2, 5, 5, 12, 300, BUF, BUF + 1, 2 * BUF + 77, 3 * BUF + 1, 40000]), nb=st.booleans())
        def setup(self, n, nb):
            self.data_len = n
            self.nb = nb            # the raw source is non-blocking and is fed by the history itself

        def _do(self, name, arg):
            if self.failed:
                return
            self.ops.append([name, arg])
            fl = (run_wrapper_nonblocking if self.nb else run_wrapper_history)(self.data_len, self.ops)
            feats = ['ops=%d' % min(len(self.ops), 10)]
            names = [o[0] for o in self.ops]
            nontriv = 'mark' in names and 'seek' in names[names.index('mark'):]
            if self.nb:
                nontriv = 'feed' in names and any(x in names[names.index('feed'):] for x in ('read', 'peek'))
            col.case(repr((self.data_len, self.nb, self.ops)).encode(), nontriv, ['wrapper-history' + ('-nonblocking' if self.nb else '')] + (['mark+seek'] if 'mark' in names and 'seek' in names else []),
                     sample={'stream_octets': self.data_len, 'history': self.ops[-12:]})
            for f in fl:
                self.failed = True
                col.fail(f['sub'], f['kind'], f['msg'], f['case'], sig=f['sig'])

        @rule(n=st.sampled_from([1, 1, 2, 3, 5, 8, 100]))
        def feed(self, n):
            if self.nb:
                self._do('feed', n)

        @rule()
        def finish(self):
            if self.nb:
                self._do('finish', None)

        @rule(n=sizes)
        def read(self, n):
            self._do('read', n)

        @rule()
        def read_all(self):
            self._do('read', -1)

        @rule(n=sizes)
        def peek(self, n):
            self._do('peek', n)

        @rule()
        def mark(self):
            self._do('mark', None)

        @rule(frac=st.sampled_from([0.0, 0.25, 0.5, 1.0]))
        def seek_back(self, frac):
            self._do('seek', frac)

    run_state_machine_as_test(hypothesis.seed(seed % (2 ** 63))(Machine),
                              settings=hypothesis.settings(max_examples=desc['examples'], stateful_step_count=14, database=None,
                                                           deadline=None, suppress_health_check=list(hypothesis.HealthCheck),
                                                           phases=[hypothesis.Phase.generate], print_blob=False))


RAW_CASES = False


# ---------------------------------------------------------------- known findings

def _f09(failure):
    """Non-seekable input longer than the read-ahead buffer: the caching wrapper renumbers positions when it trims
    its cache, which breaks every definite-length element decoded through a nested call."""
    case = fz.case_of(failure)
    if case.get('wrapper') or failure.get('obs') is None:
        return False
    kind = ir.from_jsonable(failure['obs'])['kind']
    if kind not in ('pipe', 'buffered-pipe') or len(case['b']) <= BUF:
        return False
    try:
        region = case['T'] is None or fz.f09_region(case['T'], [case['b']])
    except x690.RefError:
        region = True                # damaged input: cannot tell, assume it may hold such an element
    if not region:
        return False
    # defect model: the difference disappears when the cache is never trimmed
    saved = io.DEFAULT_BUFFER_SIZE
    io.DEFAULT_BUFFER_SIZE = 1 << 40
    try:
        return not run_case(dict(case, kind=kind))
    finally:
        io.DEFAULT_BUFFER_SIZE = saved




FINDINGS = {'F09-wrapper-renumbering': _f09}
