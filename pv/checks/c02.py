"""C02 - DER and CER round trips; canonical output accepted by every wider decoder."""
from pv.core import ir, gen, build, absval, lib, harness, x690
from pv.core import findings as fz

PROP = 'C02'
LEVEL = 'exploration'
DESIGN_REF = 'DESIGN.md 4/C02'
RULE = ('Hypothesis draws (T, v) from U (10% strings > 1000 octets, SET / SET OF with uneven members, DEFAULT components equal '
        'and unequal to their default); oracle: for (encoder, decoder) in {(DER,DER),(DER,CER),(DER,BER),(CER,CER),(CER,BER)} the '
        'decoder returns v (abstract content) with empty remainder, and all decoders that return for the same bytes agree. '
        'Non-trivial = T constructed or tagged or a string > 1000 octets; distinct = distinct (T, v).')
ASSUMPTIONS = ['abstract content is read with non-instantiating accessors (pv/core/absval.py)']
SHARDS = {'quick': (16, 200), 'thorough': (16, 5000)}
BUDGET = {'quick': 100, 'thorough': 1500}
MIN_NONTRIVIAL = {'quick': 400, 'thorough': 5000}
CFG = {'long_str_pct': 8, 'long_bits_pct': 25, 'huge_str_pct': 1}
PAIRS = (('DER', 'DER'), ('DER', 'CER'), ('DER', 'BER'), ('CER', 'CER'), ('CER', 'BER'))


def shards(tier):
    n, per = SHARDS[tier]
    return [{'examples': per, 'i': i} for i in range(n)]


def run_case(case):
    T, v = case['T'], case['v']
    fails = []

    def F(sub, kind, msg, sig='', obs=None):
        fails.append({'sub': sub, 'kind': kind, 'sig': sig, 'msg': msg, 'obs': obs})

    sch = build.schema(T)
    obj = build.value_from(sch, T, v)
    encs = {}
    for codec in ('DER', 'CER'):
        e = lib.encode(codec, obj)
        if not e.ok:
            F(codec.lower() + '-encode', 'raises', e.brief(), e.sig)
        else:
            encs[codec] = e.value
    for enc_c, dec_c in PAIRS:
        if enc_c not in encs:
            continue
        sub = '%s->%s' % (enc_c, dec_c)
        data = encs[enc_c]
        d = lib.decode(dec_c, data, sch)
        if not d.ok:
            F(sub, 'raises', '%s | enc=%s' % (d.brief(), data.hex()[:160]), d.sig)
            continue
        if d.rest != b'':
            F(sub, 'remainder', 'remainder %s | enc=%s' % (bytes(d.rest).hex()[:40], data.hex()[:160]))
        try:
            got = absval.absval(T, d.value, sch)
        except absval.Shape as e:
            F(sub, 'value', 'shape: %s | enc=%s' % (e, data.hex()[:160]), obs={'shape': str(e)[:200]})
            continue
        if not ir.same(T, got, v):
            F(sub, 'value', 'value %s != expected %s | enc=%s' % (absval.short(got), absval.short(v), data.hex()[:120]),
              obs={'got': got})
    return fails


def replay(case):
    return [dict(f, case=ir.to_jsonable(case), obs=ir.to_jsonable(f.get('obs'))) for f in run_case(case)]


def nontrivial(T, v):
    return ir.depth(T) >= 1 or ir.has_tags(T) or fz.max_string_octets(T, v) > 1000


def features(T, v):
    f = ['depth=%d' % ir.depth(T)]
    if ir.has_tags(T):
        f.append('tagged')
    kinds = ir.kinds_in(T)
    for k in ('SET', 'SETOF', 'CHOICE', 'ANY'):
        if k in kinds:
            f.append('kind:' + k)
    if fz.max_string_octets(T, v) > 1000:
        f.append('string>1000')
    if any(t['k'] in ir.RECORD_KINDS and any(c['p'] == 'def' for c in t['comps']) for t in fz.type_nodes(T)):
        f.append('has-default')
    if fz.explicit_over_nonindef_prim(T, v):
        f.append('explicit-primitive')
    return f


def run_shard(desc, seed, tier, col):
    def body(x):
        T, v = x
        case = {'T': T, 'v': v}
        col.case(case, nontrivial(T, v), features(T, v),
                 sample={'type': ir.show_type(T), 'value': absval.short(v, 200)})
        col.begin(case)
        for f in run_case(case):
            col.fail(f['sub'], f['kind'], f['msg'], case, sig=f['sig'], obs=f.get('obs'))

    harness.run_given(gen.type_and_value(CFG), body, seed, desc['examples'], col)


# ---------------------------------------------------------------- known findings

def _f_ifnotempty(failure):
    """CER/DER drop constructed elements with empty contents anywhere below an OPTIONAL component."""
    case = fz.case_of(failure)
    T, v = case['T'], case['v']
    w = fz.cer_drop(T, v)
    if w is not fz.MISSING and ir.same(T, w, v):
        return False
    if not fz.well_formed(T, w):
        return failure['kind'] in ('raises', 'value', 'remainder')
    if failure['kind'] == 'value' and failure.get('obs'):
        got = ir.from_jsonable(failure['obs']).get('got')
        return got is not None and ir.same(T, got, w)
    return False




_MODEL_BASED = (_f_ifnotempty,)
_CER_SUBS = ('CER->CER', 'CER->BER')

FINDINGS = {
    'F05-ifnotempty': _f_ifnotempty,
}
FINDINGS.update(fz.by_neutralising_all(run_case, [
    ('F01-stray-eoo', fz.explicit_over_nonindef_prim, fz.neutralise_explicit_prims),
], subs=_CER_SUBS, others=_MODEL_BASED))
