"""C08 - malformed input fails cleanly: only library errors, always terminates."""
import io
import itertools

from pyasn1 import error
from pyasn1.type import base as _base

from pv.core import ir, gen, build, absval, lib, harness, x690, streams, mutate
from pv.core import findings as fz

PROP = 'C08'
LEVEL = 'exploration'
DESIGN_REF = 'DESIGN.md 4/C08'
RULE = ('(i) EXHAUSTIVE: every byte string of length 0..3 over a 28-octet structural alphabet (universal tags in both forms, '
        'high-tag escape, context tags, end-of-contents, short / long / indefinite / reserved length octets) = 22765 inputs; '
        '(ii) Hypothesis: reference encodings of values from U damaged by bit flips, insertions, deletions, duplications, '
        'truncation, splices, identifier and length rewrites (incl. absurd lengths), and raw random octets; (iii) thorough tier: '
        'two coverage-guided atheris campaigns (empty corpus, corpus of reference encodings). Each input x {BER, CER, DER} x '
        '{one-shot on bytes, StreamingDecoder on a closed seekable stream double that counts reads, StreamingDecoder on a '
        'non-blocking non-seekable source that delivers the input in two bursts with an idle poll in between (a few split points)} x guiding type in {none, the '
        'type of the seed encoding, a neighbour type, fixed types}. Inputs nested deeper than 24 levels are outside the property '
        'and skipped. Oracle: the call ends with reads <= 8*(|b|+1)+16 and either returns an Asn1Item that is a value (not None, '
        'not a placeholder) plus bytes, or raises a PyAsn1Error; everything else is a violation bucketed by (exception type, '
        'innermost library frame). Non-trivial = the input is at least 2 octets and is not a valid encoding of the guiding type; '
        'distinct = distinct (input, decoder, mode, guiding type).')
RULE += (' ' + "Also: directed inputs - lengths at sys.maxsize, records with open type fields (decoded with decodeOpenTypes=True), a member arriving twice, and numbers spelled with thousands of digits (decimal REALs in the three ISO 6093 forms, time fractions, huge integers and arcs); the library runs under the interpreter's default int/str digit limit.")
ASSUMPTIONS = ['reads are counted by the stream double (pv/core/streams.py)']
BUDGET = {'quick': 100, 'thorough': 2400}
MIN_NONTRIVIAL = {'quick': 1000, 'thorough': 10000}
TECHNIQUE = 'exhaustive enumeration of short inputs + mutation-based property testing (Hypothesis) + coverage-guided fuzzing (atheris, thorough)'
CFG = {'long_str_pct': 0, 'max_depth': 2, 'max_comps': 3, 'many_elems_pct': 0}
DEPTH_BOUND = 24
CODECS = ('BER', 'CER', 'DER')

INT = ir.mk('INTEGER')
FIXED_TYPES = [
    ('INTEGER', INT),
    ('SEQUENCE', ir.mk('SEQUENCE', comps=[ir.comp('a', INT), ir.comp('b', ir.mk('OCTETSTRING'), 'opt'),
                                         ir.comp('c', ir.mk('BOOLEAN'), 'def', False)])),
    ('SETOF-BITSTRING', ir.mk('SETOF', of=ir.mk('BITSTRING'))),
    ('CHOICE', ir.mk('CHOICE', alts=[{'name': 'a', 't': ir.mk('BOOLEAN', tags=[['E', 'C', 0]])},
                                     {'name': 'b', 't': ir.mk('UTF8String')}, {'name': 'c', 't': ir.mk('REAL')}])),
    ('ANY', ir.mk('ANY')),
    ('OID', ir.mk('OID')),
]
_SCH = {}


def open_schema():
    """SEQUENCE {id INTEGER, blob ANY DEFINED BY id {1: INTEGER, 2: SEQUENCE {a INTEGER, b OCTET STRING OPTIONAL}, 3: SEQUENCE OF
    BOOLEAN}, z [9] INTEGER OPTIONAL}: decoded with decodeOpenTypes=True (the schema object carries the switch for the drivers)."""
    if 'OPEN' not in _SCH:
        from pyasn1.type import univ, opentype, namedtype, tag as ptag
        inner = {1: univ.Integer(), 2: univ.Sequence(componentType=namedtype.NamedTypes(
            namedtype.NamedType('a', univ.Integer()), namedtype.OptionalNamedType('b', univ.OctetString()))), 3: univ.SequenceOf(componentType=univ.Boolean())}
        sch = univ.Sequence(componentType=namedtype.NamedTypes(
            namedtype.NamedType('id', univ.Integer()), namedtype.NamedType('blob', univ.Any(), openType=opentype.OpenType('id', inner)),
            namedtype.OptionalNamedType('z', univ.Integer().subtype(implicitTag=ptag.Tag(ptag.tagClassContext, ptag.tagFormatSimple, 9)))))
        _SCH['OPEN'] = sch
    return _SCH['OPEN']


def dec_opts(spec):
    return {'decodeOpenTypes': True} if spec is not None and spec is _SCH.get('OPEN') else {}


def fixed_schema(name):
    if name not in _SCH:
        _SCH[name] = build.schema(dict(FIXED_TYPES)[name])
    return _SCH[name]


def shards(tier):
    out = [{'mode': 'exhaustive', 'first': mutate.ALPHABET[i::14]} for i in range(14)]
    n, per = (8, 1500) if tier == 'quick' else (16, 40000)
    out += [{'mode': 'mutation', 'examples': per} for _ in range(n)]
    if tier == 'thorough':
        out += [{'mode': 'atheris', 'corpus': False, 'runs': 100000}, {'mode': 'atheris', 'corpus': True, 'runs': 100000}]
    return out


def judge(out_value, rest):
    """-> None if the returned pair is acceptable, else description."""
    v = out_value
    if v is None:
        return 'returned None as the value'
    if v is _base.noValue:
        return 'returned the noValue placeholder'
    if not isinstance(v, _base.Asn1Item):
        return 'returned a %s, not an ASN.1 object' % type(v).__name__
    try:
        if not v.isValue:
            return 'returned a valueless (schema) %s object' % type(v).__name__
    except error.PyAsn1Error as e:
        return 'returned an object whose isValue raises %s' % e
    if not isinstance(rest, (bytes, bytearray)):
        return 'remainder is a %s' % type(rest).__name__
    return None


def one(b, codec, mode, spec):
    """-> None | (kind, sig, message)"""
    if mode == 'oneshot':
        d = lib.decode(codec, b, spec, **dec_opts(spec))
        if d.ok:
            why = judge(d.value, d.rest)
            return ('bad-value', why.split(' ')[1] if why else '', why) if why else None
        if d.status == 'leak':
            return ('leak', d.sig, d.brief())
        return None
    st = streams.SeekableFeed()
    st.feed_bytes(b)
    st.finish()
    bound = 8 * (len(b) + 1) + 16
    items = []
    try:
        it = iter(lib.DEC[codec].StreamingDecoder(st, asn1Spec=spec, **dec_opts(spec)) if spec is not None else lib.DEC[codec].StreamingDecoder(st))
        while True:
            try:
                x = next(it)
            except StopIteration:
                break
            items.append(x)
            if st.c.reads > bound or len(items) > bound:
                return ('no-termination', '', 'more than %d reads / items on a %d-octet closed stream' % (bound, len(b)))
    except error.PyAsn1Error:
        pass
    except Exception as ex:
        return ('leak', harness.exc_sig(ex), 'leak %s: %s' % (harness.exc_sig(ex), str(ex)[:120]))
    if st.c.reads > bound:
        return ('no-termination', '', '%d reads on a %d-octet closed stream (bound %d)' % (st.c.reads, len(b), bound))
    for x in items:
        if isinstance(x, error.SubstrateUnderrunError):
            continue
        why = judge(x, b'')
        if why:
            return ('bad-value', why.split(' ')[1], why)
    return None


def trickle(b, codec, spec):
    """The input arrives on a non-blocking, non-seekable source in two bursts with an idle poll in between, for a few split
    points; then the source closes. -> None | (kind, sig, message)"""
    n = len(b)
    for k in sorted(set(x for x in (1, 2, n // 2, n - 1) if 0 < x < n)):
        st = streams.PipeFeed()
        st.feed_bytes(b[:k])
        bound = 8 * (n + 1) + 32
        items, polls, fed = [], 0, False
        try:
            it = iter(lib.DEC[codec].StreamingDecoder(st, asn1Spec=spec, **dec_opts(spec)) if spec is not None else lib.DEC[codec].StreamingDecoder(st))
            steps = 0
            while True:
                steps += 1
                if steps > bound:
                    return ('no-termination', '', 'more than %d steps on a %d-octet stream split at %d' % (bound, n, k))
                try:
                    x = next(it)
                except StopIteration:
                    break
                if isinstance(x, error.SubstrateUnderrunError):
                    polls += 1
                    if not fed and polls >= 2:
                        st.feed_bytes(b[k:])
                        st.finish()
                        fed = True
                    continue
                items.append(x)
        except error.PyAsn1Error:
            pass
        except Exception as ex:
            return ('leak', harness.exc_sig(ex), 'leak %s: %s (split at %d)' % (harness.exc_sig(ex), str(ex)[:120], k))
        for x in items:
            why = judge(x, b'')
            if why:
                return ('bad-value', why.split(' ')[1], why + ' (split at %d)' % k)
    return None


def run_input(b, specs, col=None, label='', nontriv_hint=True):
    """specs: list of (name, schema or None, IR type or None). -> failures"""
    fails = []
    # (the framework lifts the interpreter's limit on int <-> str conversions for its own arithmetic; here the library runs under
    # the interpreter's default, as it does for its users: a ValueError of the interpreter's own must not escape either)
    import sys
    if hasattr(sys, 'set_int_max_str_digits'):
        sys.set_int_max_str_digits(4300)
    dp = x690.max_depth(b)
    if dp is not None and dp > DEPTH_BOUND:
        if col is not None:
            col.exclude('nested deeper than %d levels' % DEPTH_BOUND)
        return fails
    for sname, spec, T in specs:
        valid = False
        if T is not None:
            try:
                x690.read(T, b)
                valid = True
            except x690.RefError:
                pass
            except Exception:
                pass
        for codec in CODECS:
            for mode in ('oneshot', 'stream', 'trickle'):
                if mode == 'trickle' and len(b) < 2:
                    continue
                r = trickle(b, codec, spec) if mode == 'trickle' else one(b, codec, mode, spec)
                if col is not None:
                    col.case(b + ('|%s|%s|%s' % (codec, mode, sname)).encode(), len(b) >= 2 and not valid,
                             ['decoder:' + codec, mode, 'spec:' + sname.split(':')[0], label, 'len=%d' % min(len(b), 8)],
                             sample={'input': b.hex()[:80], 'decoder': codec, 'mode': mode, 'guiding_type': sname, 'source': label})
                if r is not None:
                    kind, sig, msg = r
                    fails.append({'sub': '%s-%s' % (codec.lower(), mode), 'kind': kind, 'sig': sig, 'obs': None,
                                  'msg': '%s | input=%s spec=%s' % (msg, b.hex()[:100], sname), 'spec': sname, 'codec': codec, 'mode': mode})
    return fails


def fixed_specs():
    return [('none', None, None)] + [('fixed:' + n, fixed_schema(n), t) for n, t in FIXED_TYPES] + [('fixed:OPENTYPE', open_schema(), None)]


def run_case(case, col=None):
    b = case['b']
    if col is not None:
        col.begin(case)
    if case.get('T') is not None:
        specs = [('none', None, None), ('own', build.schema(case['T']), case['T'])]
        if case.get('T2') is not None:
            specs.append(('neighbour', build.schema(case['T2']), case['T2']))
        specs.append(('fixed:SEQUENCE', fixed_schema('SEQUENCE'), dict(FIXED_TYPES)['SEQUENCE']))
    else:
        specs = fixed_specs()
    if case.get('spec') is not None:
        specs = [s for s in specs if s[0] == case['spec']]
    fl = run_input(b, specs, col, case.get('label', 'replay'))
    if case.get('codec'):
        fl = [f for f in fl if f['codec'] == case['codec'] and f['mode'] == case['mode']]
    return fl


def replay(case):
    return [dict(f, case=ir.to_jsonable(case), obs=None) for f in run_case(case)]


def _emit(col, case, fl):
    seen = set()
    for f in fl:
        key = (f['sub'], f['kind'], f['sig'])
        if key in seen:
            continue
        seen.add(key)
        col.fail(f['sub'], f['kind'], f['msg'], dict(case, spec=f['spec'], codec=f['codec'], mode=f['mode']), sig=f['sig'],
                 size=len(case['b']))


def run_shard(desc, seed, tier, col):
    if desc['mode'] == 'exhaustive':
        A = mutate.ALPHABET
        for first in desc['first']:
            for n in range(0, 3):
                for rest in itertools.product(A, repeat=n):
                    if col.out_of_time():
                        return
                    b = bytes((first,) + rest)
                    case = {'b': b, 'label': 'exhaustive'}
                    _emit(col, case, run_case(case, col))
        if desc['first'] and desc['first'][0] == mutate.ALPHABET[0]:
            case = {'b': b'', 'label': 'exhaustive'}
            _emit(col, case, run_case(case, col))
        col.exhaustive = True
        return
    if desc['mode'] == 'atheris':
        return run_atheris(desc, seed, col)
    from hypothesis import strategies as st

    @st.composite
    def cases(draw):
        d = gen.D(draw, gen.DEFAULT_CFG)
        r = d.int(0, 9)
        if r == 0:
            return {'b': d.bytes(d.int(0, 24)), 'label': 'random'}
        if r <= 3:
            return {'b': grammar_tlv(d, 3), 'label': 'grammar'}
        if r == 6 and d.pct(75):
            # records with an ANY DEFINED BY field (decoded with open type resolution, see open_schema), intact or damaged
            gid = d.pick([1, 2, 3, 4])
            inner = {1: x690.der(INT, d.int(-300, 70000)), 2: x690.der(dict(FIXED_TYPES)['SEQUENCE'], {'a': d.int(0, 300), 'b': d.bytes(d.int(0, 4))}),
                     3: b'\x30\x06\x01\x01\xff\x01\x01\x00', 4: x690.der(ir.mk('OCTETSTRING'), d.bytes(3))}[gid]
            if d.pct(50):
                inner = inner[:d.int(1, max(1, len(inner) - 1))] if d.pct(50) else mutate.mutate(d, inner)
            body = x690.der(INT, gid) + inner + (b'\x89\x01\x07' if d.pct(50) else b'')
            b = b'\x30' + x690.length(len(body)) + body if d.pct(60) else b'\x30\x80' + body + b'\x00\x00'
            if d.pct(25):
                b = mutate.mutate(d, b)
            return {'b': b, 'label': 'open-type-record'}
        if r == 5 and d.pct(30):
            # a length octet sequence at the edge of what a stream's read() accepts (sys.maxsize and a few below, 2**63 .. above)
            import sys as _sys
            ln = d.pick([_sys.maxsize - k for k in range(0, 12)] + [_sys.maxsize + 1, 2 ** 64 - 1, 2 ** 32, 2 ** 31 - 1])
            head = bytes([d.pick([0x04, 0x30, 0x24, 0x02, 0xa0, 0x31, 0x0c])]) + bytes([0x88]) + ln.to_bytes(8, 'big')
            b = head + d.bytes(d.int(0, 6))
            if d.pct(40):
                b = b'\x30\x80' + b + b'\x00\x00'
            return {'b': b, 'label': 'edge-length'}
        if r == 5 and d.pct(30):
            # REAL contents octets over the whole first-octet space: binary with every base / scale / exponent-length code (the
            # length-prefixed form with a count of 0, 1, more than there is), special values, decimal forms with odd texts
            fo = d.pick([0x80, 0x81, 0x82, 0x83, 0x83, 0x83, 0x8f, 0x93, 0xa3, 0xb0, 0xb3, 0xc3, 0xff, 0x40, 0x41, 0x42, 0x43, 0x44, 0x7f,
                         0x01, 0x02, 0x03, 0x00, 0x04, 0x3f])
            if fo & 0x80 and fo & 3 == 3:
                rest = bytes([d.pick([0, 0, 1, 2, 3, 4, 127, 255])]) + d.bytes(d.int(0, 5))
            elif fo & 0xc0 == 0:
                rest = d.pick([b'', b' ', b'1', b'-', b'+.', b'1e', b'1E-', b'.E1', b'1..2', b'nan', b'inf', b'-inf', b'0x10', b'1_0', b'1.5E1.5',
                               b'\x00', b'12 34', b' 12', b'12 ', b'1,5', b'--1', b'1e400', b'1e-400', b'0.E0'])
            else:
                rest = d.bytes(d.int(0, 5))
            c = bytes([fo]) + rest
            b = b'\x09' + x690.length(len(c)) + c
            if d.pct(30):
                b = b'\x30' + x690.length(len(b)) + b if d.pct(50) else b'\xa1\x80' + b + b'\x00\x00'
            return {'b': b, 'label': 'real-contents'}
        if r == 5 and d.pct(40):
            # numbers spelled with thousands of digits (the interpreter refuses int(str) beyond 4300 digits with a ValueError of its
            # own): decimal REALs in the three ISO 6093 forms, time strings with endless fractions, huge integers and arcs
            nd = d.pick([4299, 4300, 4301, 4302, 5000, 9000])
            digits = (d.pick('123456789') + '0123456789' * (nd // 10 + 1))[:nd]
            what = d.pick(['nr1', 'nr2', 'nr3-mant', 'nr3-exp', 'nr2-frac', 'time', 'int', 'oid'])
            if what == 'nr1':
                c, tagb = b'\x01' + digits.encode(), 0x09
            elif what == 'nr2':
                c, tagb = b'\x02' + digits.encode() + b'.5', 0x09
            elif what == 'nr2-frac':
                c, tagb = b'\x02' + b'1.' + digits.encode(), 0x09
            elif what == 'nr3-mant':
                c, tagb = b'\x03' + digits.encode() + b'.E-3', 0x09
            elif what == 'nr3-exp':
                c, tagb = b'\x03' + b'1.E' + d.pick([b'', b'-', b'+']) + digits.encode(), 0x09
            elif what == 'time':
                c, tagb = b'20170801120112.' + digits.encode() + b'Z', 0x18
            elif what == 'int':
                c, tagb = bytes([d.pick([0x7f, 0x80, 0x01])]) + bytes(nd), 0x02
            else:
                c, tagb = b'\x2a' + b'\x81' * nd + b'\x01', 0x06
            b = bytes([tagb]) + x690.length(len(c)) + c
            if d.pct(40):
                b = b'\x30' + x690.length(len(b)) + b if d.pct(50) else b'\x30\x80' + b + b'\x00\x00'
            return {'b': b, 'label': 'huge-number'}
        if r == 4 and d.pct(50):
            # a record of mandatory members in which one member arrives twice and another one not at all
            kinds = d.draw(st.lists(st.sampled_from(['BOOLEAN', 'INTEGER', 'OCTETSTRING', 'NULL', 'OID', 'UTF8String', 'IA5String', 'BITSTRING']),
                                    min_size=2, max_size=4, unique=True))
            T = ir.mk(d.pick(['SET', 'SET', 'SEQUENCE']), comps=[ir.comp('abcd'[i], ir.mk(k), 'req' if i < 2 or d.pct(60) else 'opt')
                                                                 for i, k in enumerate(kinds)])
            v = {c['name']: gen.draw_value(d, c['t']) for c in T['comps']}
            form = d.pick(['DER', 'BER-indef'])
            e = x690.der(T, v) if form == 'DER' else x690.ber(T, v, x690.Fixed(indef=True, chunk=0))
            top, _end = x690.walk(e)
            i = d.int(0, len(top.kids) - 1)
            j = (i + 1 + d.int(0, len(top.kids) - 2)) % len(top.kids)
            body = b''.join(e[(top.kids[i] if n == j else k).start:(top.kids[i] if n == j else k).end] for n, k in enumerate(top.kids))
            b = x690.ident(top.cls, True, top.num) + (x690.length(len(body)) + body if form == 'DER' else b'\x80' + body + b'\x00\x00')
            return {'b': b, 'T': T, 'T2': None, 'label': 'member-twice'}
        ev = draw(gen.encoded_values(CFG, 1, 2))
        b = b''.join(ev['encs'])
        T2 = None
        if d.pct(50):
            T2 = gen.draw_type(gen.D(draw, dict(gen.DEFAULT_CFG, **CFG)))
        if r <= 7:
            b = mutate.mutate(d, b)
            label = 'mutated'
        else:
            label = 'valid-under-other-type'
        return {'b': b, 'T': ev['T'], 'T2': T2, 'label': label}

    def body(case):
        _emit(col, case, run_case(case, col))

    harness.run_given(cases(), body, seed, desc['examples'], col)
    col.exhaustive = None


GR_TAGS = [0x01, 0x02, 0x03, 0x04, 0x05, 0x06, 0x09, 0x0a, 0x0c, 0x13, 0x16, 0x17, 0x18, 0x1e, 0x80, 0x81, 0x5f]
GR_CONS = [0x30, 0x31, 0x23, 0x24, 0x2c, 0x36, 0xa0, 0xa1, 0x60, 0xbf]
GR_CONTENT = [b'', b'\x00', b'\x01', b'\xff', b'\x00\x00', b'\x80', b'\x03\x6e\x61\x6e', b'\x83\x00\x01', b'\x80\x00\x01', b'\x08\x01',
              b'\x80\x01', b'\x2a\x80\x01', b'\x07\xff', b'\x40', b'\x42', b'\x43', b'\xc3\x28', b'\x31\x32\x5a', b'\x81', b'\x83\x01']


def grammar_tlv(d, depth):
    """A random TLV tree serialised with mostly consistent - sometimes lying - lengths, empty fragments,
    zero-length containers, surplus and missing components."""
    def node(depth):
        if depth > 0 and d.pct(55):
            tag = d.pick(GR_CONS)
            ident = bytes([tag]) + (bytes([d.pick([0x1f, 0x20, 0x81, 0x80])]) + bytes([d.int(0, 127)]) if tag & 0x1f == 0x1f else b'')
            kids = b''.join(node(depth - 1) for _ in range(d.pick([0, 0, 1, 1, 2, 3])))
            if d.pct(35):
                return ident + b'\x80' + kids + (b'\x00\x00' if d.pct(85) else b'')
            return ident + ln(len(kids)) + kids
        tag = d.pick(GR_TAGS)
        ident = bytes([tag]) + (bytes([d.int(0, 127)]) if tag & 0x1f == 0x1f else b'')
        content = d.pick(GR_CONTENT) if d.pct(60) else d.bytes(d.int(0, 6))
        return ident + ln(len(content)) + content

    def ln(n):
        r = d.int(0, 19)
        if r == 0:
            n = max(0, n - 1)
        elif r == 1:
            n += 1
        elif r == 2:
            return b'\x81' + bytes([n & 0xff])
        elif r == 3:
            return b'\x82\x00' + bytes([n & 0xff])
        elif r == 4:
            return b'\x80'
        return bytes([n]) if n < 128 else b'\x81' + bytes([n & 0xff])

    return b''.join(node(depth) for _ in range(d.pick([1, 1, 1, 2])))


def run_atheris(desc, seed, col):
    """Coverage-guided campaign; every crash candidate is re-judged by the deterministic oracle above."""
    import os
    import subprocess
    import sys
    import tempfile
    here = os.path.dirname(os.path.abspath(__file__))
    with tempfile.TemporaryDirectory(prefix='pv_c08_') as tmp:
        corpus = os.path.join(tmp, 'corpus')
        os.makedirs(corpus)
        if desc['corpus']:
            i = 0
            for _n, T in FIXED_TYPES:
                pass
            for enc in ('020105', '3006020101040161', '31800303000102030000', 'a003010100', '0c03616263', '0903800001',
                        '06032a0304', '240c04034c442b24800401230000', '30800201010000', '1f'):
                with open(os.path.join(corpus, 's%d' % i), 'wb') as f:
                    f.write(bytes.fromhex(enc))
                i += 1
        crashes = os.path.join(tmp, 'crashes')
        os.makedirs(crashes)
        env = dict(os.environ)
        cmd = [sys.executable, os.path.join(here, 'c08_fuzz.py'), corpus, '-runs=%d' % desc['runs'], '-seed=%d' % (seed % (2 ** 31) or 1),
               '-max_len=64', '-artifact_prefix=' + crashes + '/', '-print_final_stats=0']
        env['PV_C08_CRASHDIR'] = crashes
        # (the campaign runs in a process of its own, with its own time limit: the watchdog of this shard - re-armed by recorded
        # cases only - stands down meanwhile)
        harness.disarm_watchdog()
        try:
            p = subprocess.run(cmd, env=env, capture_output=True, text=True, timeout=2000)
        except subprocess.TimeoutExpired:
            col.notes.append('atheris campaign (corpus=%s): stopped at its 2000 s limit (inconclusive, not a violation)' % desc['corpus'])
            col.budget_exhausted = True
            return
        finally:
            harness.arm_watchdog()
        execs = 0
        for line in (p.stderr or '').splitlines():
            if 'Done' in line and 'runs' in line:
                try:
                    execs = int(line.split('Done')[1].split('runs')[0].strip())
                except ValueError:
                    pass
        col.count('atheris_executions', execs)
        col.notes.append('atheris campaign (corpus=%s): exit %s, %d executions, %d saved inputs'
                         % (desc['corpus'], p.returncode, execs, len(os.listdir(crashes))))
        for name in sorted(os.listdir(crashes)):
            with open(os.path.join(crashes, name), 'rb') as f:
                b = f.read()
            case = {'b': b, 'label': 'atheris'}
            _emit(col, case, run_case(case, col))


FINDINGS = {}
