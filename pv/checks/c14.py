"""C14 - constraints mean what set theory says and cannot be bypassed."""
import copy
import pickle
from pyasn1 import error
from pyasn1.type import univ, char, constraint, namedtype, tag as ptag, base as _base

from pv.core import ir, gen, build, lib, harness, cons, x690

PROP = 'C14'
LEVEL = 'exploration'
DESIGN_REF = 'DESIGN.md 4/C14'
RULE = ('Hypothesis draws constraint expression trees (depth <= 4) over SingleValue / ValueRange / ValueSize / PermittedAlphabet / '
        'WithComponents(present, absent) and Intersection / Union / Exclusion for INTEGER, OCTET STRING, BIT STRING, character '
        'strings, SEQUENCE OF / SET OF and records, with candidate values around every constant of the tree. Oracles: (a) '
        'constructing T(x) succeeds iff x is in the independently computed denotation, and fails with ValueConstraintError; (b) '
        'no value-producing operation (clone, subtype, integer arithmetic and bit operators, string + * slicing, BIT STRING + << >> '
        'slicing, decoding an out-of-set encoding) returns an object of the constrained type outside the denotation; (c) BER / CER '
        '/ DER / native encoders refuse SEQUENCE OF / SET OF values violating their SIZE and records violating presence rules and '
        'accept conforming ones; (d) along derivation chains T0 -> subtype(c1[, explicit tag]) -> subtype(c2) ... the child admits '
        'a subset of the parent, parent.isSuperTypeOf(child) holds, and a child value can be assigned to a parent-typed record '
        'field and appended to a parent-typed SEQUENCE OF, which then encodes. Non-trivial = tree with >= 2 operators or chain of '
        'length >= 2; distinct = distinct (tree / chain, candidate, operation).')
RULE += (' ' + 'Also: OBJECT IDENTIFIER payloads under single values and their unions / exclusions; untyped SEQUENCE OF; constraints as class attributes; child values that travelled through pickle / copy; any exception that is not a PyAsn1Error counts as a violation.')
ASSUMPTIONS = ['denotations are computed by pv/core/cons.py']
SHARDS = {'quick': (16, 150), 'thorough': (16, 4000)}
BUDGET = {'quick': 100, 'thorough': 1500}
MIN_NONTRIVIAL = {'quick': 300, 'thorough': 5000}
SCALARS = ['INTEGER', 'INTEGER', 'OCTETSTRING', 'BITSTRING', 'IA5String', 'UTF8String', 'PrintableString', 'OID']


def shards(tier):
    n, per = SHARDS[tier]
    return [{'examples': per, 'i': i} for i in range(n)]


def mk_type(kind, exprs, tags=(), bare=False, root_class=False):
    """Constrained pyasn1 type derived step by step: exprs = list of constraint trees (a derivation chain).
    bare: the constraint object is handed to subtype() as it is (the common spelling), otherwise wrapped in an intersection."""
    T = ir.mk(kind)
    obj = build.schema(T)
    chain = [obj]
    for i, c in enumerate(exprs):
        if i == 0 and root_class and not (i < len(tags) and tags[i] is not None):
            # the first constraint as a class attribute of a subclass, exactly as drawn (possibly a union or an exclusion at the
            # top): further links must still narrow it
            obj = type(obj.__class__.__name__ + 'C', (obj.__class__,), {'subtypeSpec': cons.build(c, kind)})()
            chain.append(obj)
            continue
        kw = {'subtypeSpec': cons.build(c, kind) if bare else constraint.ConstraintsIntersection(cons.build(c, kind))}
        if i < len(tags) and tags[i] is not None:
            kw['explicitTag'] = ptag.Tag(ptag.tagClassContext, ptag.tagFormatConstructed, tags[i])
        obj = obj.subtype(**kw)
        chain.append(obj)
    return chain


def py(kind, x):
    return build.py_scalar({'k': kind}, x)


def concrete(d, kind, cand):
    """Candidate spec -> concrete IR value."""
    if isinstance(cand, tuple) and cand and cand[0] == 'size':
        return cons.value_of_size(d, kind, cand[1])
    if isinstance(cand, tuple) and cand and cand[0] == 'chars':
        if kind in ir.CHAR_KINDS:
            pool = cand[1] or 'a'
            n = d.int(0, 4)
            base = ''.join(d.pick(pool) for _ in range(n))
            return base if d.pct(50) else base + d.pick('zZ9#')
        return None
    return cand


def admits_all(exprs, kind, x):
    return all(cons.admits(c, kind, x) for c in exprs)


def value_of(kind, obj):
    """IR value of a pyasn1 scalar object."""
    if kind == 'INTEGER':
        return int(obj)
    if kind == 'OCTETSTRING':
        return bytes(obj.asOctets())
    if kind == 'BITSTRING':
        n = len(obj)
        return (n, int(obj.asInteger()) if n else 0)
    if kind == 'OID':
        return tuple(int(x) for x in obj)
    return str(obj)


def run_case(case):
    fails = []
    kind = case['kind']

    def F(sub, k, msg, sig=''):
        fails.append({'sub': sub, 'kind': k, 'sig': sig, 'msg': msg, 'obs': None})

    if case['what'] == 'scalar':
        exprs = case['exprs']
        try:
            chain = mk_type(kind, exprs, case.get('tags', ()), case.get('bare', False), case.get('root_class', False))
        except Exception as e:
            # (deriving a type from legal constraints through the public API must work, whatever the exception class)
            F('build', 'raises', 'building the constrained type raised %s: %s | %s' % (harness.exc_sig(e), str(e)[:100], ir.jdump(exprs)[:200]), harness.exc_sig(e))
            return fails
        T = chain[-1]
        desc = ir.jdump(exprs)[:220]
        # (a) denotation
        for x in case['cands']:
            want = admits_all(exprs, kind, x)
            try:
                o = T.clone(py(kind, x))
                got = True
            except error.ValueConstraintError:
                got = False
            except error.PyAsn1Error as e:
                if want:
                    F('denotation', 'wrong-error', '%s(%r) raised %s instead of being admitted | %s' % (kind, x, harness.exc_sig(e), desc), harness.exc_sig(e))
                else:
                    F('denotation', 'wrong-error', '%s(%r) rejected with %s, not ValueConstraintError | %s' % (kind, x, harness.exc_sig(e), desc), harness.exc_sig(e))
                continue
            except Exception as e:
                F('denotation', 'leak', '%s(%r) leaked %s | %s' % (kind, x, harness.exc_sig(e), desc), harness.exc_sig(e))
                continue
            if got != want:
                F('denotation', 'admitted' if got else 'rejected', '%s(%r) %s, denotation says %s | %s' % (
                    kind, x, 'admitted' if got else 'rejected', 'in' if want else 'out', desc))
            # the same initialiser handed over as a value object of the unconstrained base type
            try:
                T.clone(chain[0].clone(py(kind, x)))
                got2 = True
            except error.ValueConstraintError:
                got2 = False
            except Exception:
                got2 = got
            if got2 != got:
                F('denotation', 'object-initialiser', '%s(<unconstrained %s object %r>) %s but %s(%r) %s | %s' % (
                    kind, kind, x, 'admitted' if got2 else 'rejected', kind, x, 'admitted' if got else 'rejected', desc))
            # (d) subset along the chain: child admits => every ancestor admits
            if got:
                for depth_, anc in enumerate(chain[1:-1]):
                    try:
                        anc.clone(py(kind, x))
                    except Exception:
                        F('chain', 'not-a-subset', 'value %r admitted by the derived type but not by ancestor %d | %s' % (x, depth_ + 1, desc))
        # (b) no bypass
        inside = [x for x in case['cands'] if admits_all(exprs, kind, x)]
        for x in inside[:3]:
            try:
                o = T.clone(py(kind, x))
            except Exception:
                continue            # (reported by (a))
            for opname, fn in operations(kind, case['operands']):
                try:
                    r = fn(o)
                except error.PyAsn1Error:
                    continue
                except (ZeroDivisionError, OverflowError, ValueError, TypeError, IndexError):
                    continue
                except Exception as e:
                    F('bypass', 'leak', '%s on %r leaked %s | %s' % (opname, x, harness.exc_sig(e), desc), harness.exc_sig(e))
                    continue
                if isinstance(r, _base.Asn1Item) and r.__class__ is o.__class__ and r.subtypeSpec == o.subtypeSpec and r.isValue:
                    try:
                        rv = value_of(kind, r)
                    except Exception:
                        continue
                    if not admits_all(exprs, kind, rv):
                        F('bypass', opname.split('(')[0], '%s on %r returned %r of the constrained type, outside the denotation | %s' % (opname, x, rv, desc))
        # decoding an out-of-set encoding
        outside = [x for x in case['cands'] if not admits_all(exprs, kind, x)]
        for x in outside[:3]:
            try:
                enc = x690.der(ir.mk(kind, tags=[['E', 'C', t] for t in case.get('tags', ()) if t is not None]), x)
            except Exception:
                continue
            for codec in ('BER', 'DER'):
                d = lib.decode(codec, enc, T)
                if d.ok:
                    try:
                        rv = value_of(kind, d.value)
                    except Exception:
                        continue
                    if not admits_all(exprs, kind, rv):
                        F('bypass', 'decode', '%s.decode returned %r under a type that excludes it | %s' % (codec.lower(), rv, desc))
                elif d.status == 'leak':
                    F('bypass', 'leak', 'decode leaked %s' % d.brief(), d.sig)
        # (d) subtype relations and assignment where the parent is expected
        if len(chain) >= 2:
            for i in range(1, len(chain) - 1 + 1):
                parent, child = chain[i - 1], chain[i]
                try:
                    ok = parent.isSuperTypeOf(child)
                except Exception as e:
                    F('chain', 'leak', 'isSuperTypeOf leaked %s' % harness.exc_sig(e), harness.exc_sig(e))
                    continue
                if not ok:
                    F('chain', 'not-supertype', 'link %d: parent.isSuperTypeOf(child) is False (parent %s) | %s' % (
                        i, 'constrained' if i > 1 else 'unconstrained', desc), sig='constrained-parent' if i > 1 else 'root')
            untagged = not any(t is not None for t in case.get('tags', ()))
            if untagged and inside:
                parent = chain[-2]
                x = inside[0]
                try:
                    cv = T.clone(py(kind, x))
                except Exception:
                    cv = None               # (reported by (a))
                # the value may have travelled (pickled to another process and back, copied): it is still a value of the child type
                tr = case.get('transport', 'none')
                if cv is not None and tr != 'none':
                    try:
                        if tr == 'pickle':
                            cv = pickle.loads(pickle.dumps(cv))
                        elif tr == 'copy':
                            cv = copy.copy(cv)
                        elif tr == 'deepcopy':
                            cv = copy.deepcopy(cv)
                        else:
                            cv = pickle.loads(pickle.dumps(T)).clone(py(kind, x))
                    except Exception:
                        pass        # classes made on the fly do not pickle; whether a value can travel is not what the property states
                    if cv is not None and not chain[-2].isSuperTypeOf(cv):
                        F('chain', 'not-supertype', 'after %s the parent no longer recognises the child value | %s' % (tr, desc), sig='transport')
                if cv is not None:
                    rec = univ.Sequence(componentType=namedtype.NamedTypes(namedtype.NamedType('f', parent)))
                    seqof = univ.SequenceOf(componentType=parent)
                    for nm, act in (('record-field', lambda: rec.setComponentByName('f', cv)), ('sequence-of', lambda: seqof.append(cv))):
                        try:
                            act()
                        except (error.PyAsn1Error, IndexError, KeyError) as e:
                            F('chain', 'assign-' + nm, 'child value %r refused where the parent type is expected: %s | %s' % (x, str(e)[:80], desc),
                              sig='constrained-parent' if len(chain) > 2 else 'root')
                            continue
                        e = lib.encode('DER', rec if nm == 'record-field' else seqof)
                        if not e.ok:
                            F('chain', 'encode-' + nm, 'container holding the child value does not encode: %s | %s' % (e.brief(), desc), e.sig)
        return fails

    # (c) constructed values: encoders refuse violations
    if case['what'] == 'seqof':
        c = case['expr']
        cls = univ.SequenceOf if kind == 'SEQUENCEOF' else univ.SetOf
        # (with a declared component type, or without one: a container of whatever value objects it is given)
        sch = cls() if case.get('untyped') else cls(componentType=univ.Integer())
        sch = sch.subtype(subtypeSpec=constraint.ConstraintsIntersection(cons.build(c, kind)))
        for n in case['sizes']:
            o = sch.clone()
            o.clear()
            for i in range(n):
                o.append(univ.Integer(i))
            want = cons.admits(c, kind, list(range(n)))
            _encoders(F, o, want, '%s of %d elements under %s' % (kind, n, ir.jdump(c)[:160]))
        return fails
    if case['what'] == 'record':
        c = case['expr']
        cls = univ.Sequence if kind == 'SEQUENCE' else univ.Set
        sch = cls(componentType=namedtype.NamedTypes(
            namedtype.OptionalNamedType('a', univ.Integer()), namedtype.OptionalNamedType('b', univ.OctetString()),
            namedtype.OptionalNamedType('c', univ.Boolean().subtype(implicitTag=ptag.Tag(ptag.tagClassContext, ptag.tagFormatSimple, 0)))))
        sch = sch.subtype(subtypeSpec=constraint.ConstraintsIntersection(cons.build(c, kind)))
        for present in case['subsets']:
            o = sch.clone()
            o.clear()
            # payloads whose truth value is False are as present as any other
            vals = {'a': 0, 'b': b'', 'c': False} if case.get('payload') == 'falsy' else {'a': 1, 'b': b'x', 'c': True}
            for nm in present:
                o[nm] = vals[nm]
            try:
                want = cons.admits(c, kind, {nm: vals[nm] for nm in present})
            except ValueError:
                continue            # a value rule on a field this record does not hold: no denotation to compare with
            _encoders(F, o, want, '%s with components %s under %s' % (kind, present, ir.jdump(c)[:160]))
            # the same object is judged again after its fields were given other values in place (same presence pattern):
            # a verdict must not outlive the values it was reached for
            for vals2 in case.get('revisit', []):
                if not all(nm in vals2 for nm in present):
                    continue
                for nm in present:
                    o[nm] = vals2[nm]
                try:
                    want = cons.admits(c, kind, {nm: vals2[nm] for nm in present})
                except ValueError:
                    continue
                _encoders(F, o, want, '%s with components %s = %s (changed in place) under %s' % (
                    kind, present, [vals2[nm] for nm in present], ir.jdump(c)[:160]))
        return fails
    raise ValueError(case['what'])


def _encoders(F, o, want, desc):
    from pyasn1.codec.native import encoder as nenc
    for codec in ('BER', 'CER', 'DER'):
        e = lib.encode(codec, o)
        if e.status == 'leak':
            F('encoders', 'leak', '%s encoder leaked %s | %s' % (codec, e.brief(), desc), e.sig)
        elif e.ok != want:
            F('encoders', 'accepted' if e.ok else 'refused', '%s encoder %s a value that %s its constraint | %s' % (
                codec, 'accepted' if e.ok else 'refused', 'satisfies' if want else 'violates', desc), sig=codec)
    try:
        nenc.encode(o)
        ok = True
    except error.PyAsn1Error:
        ok = False
    except Exception as ex:
        F('encoders', 'leak', 'native encoder leaked %s | %s' % (harness.exc_sig(ex), desc), harness.exc_sig(ex))
        return
    if ok != want:
        F('encoders', 'accepted' if ok else 'refused', 'native encoder %s a value that %s its constraint | %s' % (
            'accepted' if ok else 'refused', 'satisfies' if want else 'violates', desc), sig='native')


def operations(kind, operands):
    """(name, function of the constrained value object) pairs."""
    ops = []
    a, b = operands
    if kind == 'INTEGER':
        for k in (a, b, 0, 1, -1):
            ops += [('clone(%d)' % k, lambda o, k=k: o.clone(k)), ('subtype(%d)' % k, lambda o, k=k: o.subtype(k)),
                    ('+(%d)' % k, lambda o, k=k: o + k), ('radd(%d)' % k, lambda o, k=k: k + o), ('-(%d)' % k, lambda o, k=k: o - k),
                    ('rsub(%d)' % k, lambda o, k=k: k - o), ('*(%d)' % k, lambda o, k=k: o * k), ('//(%d)' % k, lambda o, k=k: o // k),
                    ('%%(%d)' % k, lambda o, k=k: o % k), ('&(%d)' % k, lambda o, k=k: o & k), ('|(%d)' % k, lambda o, k=k: o | k),
                    ('^(%d)' % k, lambda o, k=k: o ^ k), ('<<(%d)' % (abs(k) % 9), lambda o, k=k: o << (abs(k) % 9)),
                    ('>>(%d)' % (abs(k) % 9), lambda o, k=k: o >> (abs(k) % 9)), ('**(%d)' % (abs(k) % 4), lambda o, k=k: o ** (abs(k) % 4))]
        for k in (a, b, 0):
            ko = univ.Integer(k)
            ops += [('clone(obj %d)' % k, lambda o, ko=ko: o.clone(ko)), ('subtype(obj %d)' % k, lambda o, ko=ko: o.subtype(ko)),
                    ('+(obj %d)' % k, lambda o, ko=ko: o + ko), ('-(obj %d)' % k, lambda o, ko=ko: o - ko),
                    ('*(obj %d)' % k, lambda o, ko=ko: o * ko), ('|(obj %d)' % k, lambda o, ko=ko: o | ko)]
        ops += [('neg', lambda o: -o), ('pos', lambda o: +o), ('abs', lambda o: abs(o)), ('invert', lambda o: ~o),
                ('round', lambda o: round(o)), ('divmod', lambda o: divmod(o, 3)[0])]
        return ops
    if kind == 'OCTETSTRING':
        x = bytes([abs(a) % 256])
        return [('+', lambda o: o + x), ('radd', lambda o: x + o), ('*2', lambda o: o * 2), ('*0', lambda o: o * 0), ('rmul', lambda o: 3 * o),
                ('slice[1:]', lambda o: o[1:]), ('slice[:1]', lambda o: o[:1]), ('slice[:0]', lambda o: o[:0]), ('slice[::2]', lambda o: o[::2]),
                ('clone', lambda o: o.clone(x * 3)), ('subtype', lambda o: o.subtype(x * 5)), ('clone-empty', lambda o: o.clone(b'')),
                ('+obj', lambda o: o + univ.OctetString(x)), ('clone-obj', lambda o: o.clone(univ.OctetString(x * 4))),
                ('subtype-obj', lambda o: o.subtype(univ.OctetString(b'')))]
    if kind == 'OID':
        arc = (abs(a) % 5,)
        return [('+', lambda o: o + arc), ('+2', lambda o: o + (1, 4)), ('radd', lambda o: (1, 3) + o), ('slice[:3]', lambda o: o[:3]),
                ('slice[:-1]', lambda o: o[:-1]), ('slice[:2]', lambda o: o[:2]), ('clone', lambda o: o.clone((1, 3, 6, 1))),
                ('clone-str', lambda o: o.clone('1.3.6.2')), ('subtype', lambda o: o.subtype((1, 3, 6))),
                ('clone-obj', lambda o: o.clone(univ.ObjectIdentifier((1, 3, 6, 1)))), ('+obj', lambda o: o + univ.ObjectIdentifier((2,)))]
    if kind == 'BITSTRING':
        return [('+', lambda o: o + o), ('<<1', lambda o: o << 1), ('<<9', lambda o: o << 9), ('>>1', lambda o: o >> 1),
                ('slice[1:]', lambda o: o[1:]), ('slice[:1]', lambda o: o[:1]), ('slice[:0]', lambda o: o[:0]),
                ('clone', lambda o: o.clone("'10101'B")), ('subtype', lambda o: o.subtype("'1'B")), ('radd', lambda o: "'11'B" + o if False else o.clone("'11'B") + o)]
    x = 'z#'[abs(a) % 2]
    return [('+', lambda o: o + x), ('radd', lambda o: x + o), ('*2', lambda o: o * 2), ('*0', lambda o: o * 0), ('rmul', lambda o: 2 * o),
            ('slice[1:]', lambda o: o[1:]), ('slice[:1]', lambda o: o[:1]), ('slice[:0]', lambda o: o[:0]),
            ('clone', lambda o: o.clone(x * 3)), ('subtype', lambda o: o.subtype(x * 2)), ('clone-empty', lambda o: o.clone('')),
            ('+obj', lambda o: o + build.schema(ir.mk(kind)).clone(x)), ('clone-obj', lambda o: o.clone(build.schema(ir.mk(kind)).clone(x * 4)))]


def twin(c, kind):
    """A constraint of another class built from the same parameter tuple (the derived type must still honour it)."""
    if c['c'] == 'range' and kind == 'INTEGER' and c['lo'] < c['hi']:
        return {'c': 'single', 'vals': [c['lo'], c['hi']]}
    if c['c'] == 'single' and kind == 'INTEGER' and len(c['vals']) == 2 and c['vals'][0] < c['vals'][1]:
        return {'c': 'range', 'lo': c['vals'][0], 'hi': c['vals'][1]}
    if c['c'] == 'alphabet' and kind in ir.CHAR_KINDS and c['chars']:
        return {'c': 'single', 'vals': list(c['chars'])}
    if c['c'] == 'single' and kind in ir.CHAR_KINDS and c['vals'] and all(len(x) == 1 for x in c['vals']):
        return {'c': 'alphabet', 'chars': ''.join(c['vals'])}
    return None


def replay(case):
    return [dict(f, case=ir.to_jsonable(case), obs=None) for f in run_case(case)]


def run_shard(desc, seed, tier, col):
    from hypothesis import strategies as st

    @st.composite
    def cases(draw):
        d = gen.D(draw, gen.DEFAULT_CFG)
        r = d.int(0, 9)
        if r < 7:
            kind = d.pick(SCALARS)
            n = d.pick([1, 1, 2, 2, 3])
            exprs = [cons.draw_expr(d, kind, d.pick([1, 2, 3, 4])) for _ in range(n)]
            if n >= 2 and d.pct(35):
                tw = twin(exprs[0], kind)
                if tw is not None:
                    exprs[1] = tw          # same parameters as the previous link, another constraint class
            elif n >= 2 and exprs[0]['c'] == 'or' and d.pct(50):
                exprs[1] = d.pick(exprs[0]['ops'])      # narrowing to one alternative of the parent's union
            tags = [d.int(0, 5) if d.pct(25) else None for _ in range(n)]
            cands = []
            for c in exprs:
                for cand in cons.candidates(d, c, kind):
                    v = concrete(d, kind, cand)
                    if v is not None and v not in cands:
                        cands.append(v)
            cands = cands[:14]
            if kind == 'INTEGER':
                cands += [0]
            elif kind == 'OCTETSTRING':
                cands += [b'']
            elif kind == 'BITSTRING':
                cands += [(0, 0)]
            elif kind == 'OID':
                cands += [(1, 3, 6, 1)]
            else:
                cands += ['']
            return {'what': 'scalar', 'kind': kind, 'exprs': exprs, 'tags': tags, 'cands': cands, 'operands': [d.int(-300, 300), d.pick([2, 7, 128, -129])],
                    'bare': d.pct(50), 'root_class': d.pct(25), 'transport': d.pick(['none', 'none', 'pickle', 'copy', 'deepcopy', 'pickle-type'])}
        if r < 9:
            kind = d.pick(['SEQUENCEOF', 'SETOF'])
            c = cons.draw_expr(d, kind, d.pick([1, 2, 3]))
            sizes = sorted(set([0, 1] + [n for w, n in cons.constants(c) if w == 'size'] + [n + 1 for w, n in cons.constants(c) if w == 'size']))[:8]
            return {'what': 'seqof', 'kind': kind, 'expr': c, 'sizes': sizes, 'untyped': d.pct(35)}
        kind = d.pick(['SEQUENCE', 'SET'])

        def leaf():
            rules = [[nm, d.pick(['present', 'absent'])] for nm in 'abc' if d.pct(50)] or [['a', 'present']]
            if d.pct(35):
                # "any other constraint object": a value constraint on field a, or a size constraint on field b
                if d.pct(60):
                    rules = [r for r in rules if r[0] != 'a'] + [['a', d.pick([{'c': 'range', 'lo': 0, 'hi': 5}, {'c': 'single', 'vals': [1, 7]},
                                                                               {'c': 'range', 'lo': 1, 'hi': 1}])]]
                else:
                    rules = [r for r in rules if r[0] != 'b'] + [['b', {'c': 'size', 'lo': d.pick([0, 1]), 'hi': d.pick([1, 2])}]]
            return {'c': 'withcomp', 'rules': rules}

        def expr(depth):
            if depth <= 1 or d.pct(50):
                return leaf()
            return {'c': d.pick(['and', 'or', 'except']), 'ops': [expr(depth - 1) for _ in range(d.int(1, 2))]}
        subsets = [[], ['a'], ['b'], ['c'], ['a', 'b'], ['a', 'c'], ['b', 'c'], ['a', 'b', 'c']]
        revisit = [{'a': d.pick([0, 1, 5, 6, 7, -1]), 'b': d.pick([b'', b'x', b'xy', b'xyz']), 'c': d.pct(50)} for _ in range(3)]
        return {'what': 'record', 'kind': kind, 'expr': expr(3), 'subsets': subsets, 'payload': d.pick(['truthy', 'falsy']), 'revisit': revisit}

    def body(case):
        if case['what'] == 'scalar':
            nontriv = sum(cons.n_ops(c) for c in case['exprs']) >= 2 or len(case['exprs']) >= 2
            feats = ['scalar:' + case['kind'], 'chain=%d' % len(case['exprs'])] + (['explicit-tag-link'] if any(t is not None for t in case['tags']) else [])
            sample = {'kind': case['kind'], 'derivation_chain': case['exprs'], 'candidates': case['cands'][:8]}
        else:
            nontriv = cons.n_ops(case['expr']) >= 1
            feats = [case['what'] + ':' + case['kind']]
            sample = {'kind': case['kind'], 'constraint': case['expr']}
        col.case(case, nontriv, feats, sample=sample)
        seen = set()
        for f in run_case(case):
            key = (f['sub'], f['kind'], f['sig'])
            if key in seen:
                continue
            seen.add(key)
            col.fail(f['sub'], f['kind'], f['msg'], case, sig=f['sig'])

    harness.run_given(cases(), body, seed, desc['examples'], col)


FINDINGS = {}
