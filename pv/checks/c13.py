"""C13 - tags on the wire are exactly the type's tags."""
import itertools

from pyasn1 import error
from pyasn1.type import tag as ptag, univ

from pv.core import ir, gen, build, absval, lib, harness, x690
from pv.core import findings as fz

PROP = 'C13'
LEVEL = 'exploration'
DESIGN_REF = 'DESIGN.md 4/C13'
RULE = ('Every base type with a fixed universal tag x tag stacks: depth 0..1 over {application, context, private} x boundary '
        'numbers x {implicit, explicit} enumerated exhaustively (depth 2 over a reduced number set; thorough tier), depth 2..4 and '
        'pairs of differently tagged SEQUENCE members drawn by Hypothesis. Oracle: identifier octets of der.encode(value), read '
        'outermost to innermost by an independent parser, equal the tag list computed from the IR (class, number, constructed '
        'bit); decode with the type accepts; decode with every single-position perturbation of the effective tags (class '
        'changed, number +-1 / across 30|31, 127|128) raises PyAsn1Error; tag-set algebra (length, constructed wrappers, '
        'UNIVERSAL refused). Non-trivial = at least one tag in the stack; distinct = distinct (base type, stack).')
RULE += (' ' + 'Also: tag numbers up to 2^200, class and number perturbed together, and the guided encoder - a value object of the untagged twin type encoded with asn1Spec=T gives the bytes of the value of T (BER and DER).')
ASSUMPTIONS = ['identifier octets are parsed by pv/core/x690.py (no pyasn1 code)']
BUDGET = {'quick': 100, 'thorough': 1500}
MIN_NONTRIVIAL = {'quick': 500, 'thorough': 5000}
TECHNIQUE = 'exhaustive enumeration of small tag stacks + Hypothesis-generated deep stacks, independent identifier parser'

NUMS = [0, 1, 30, 31, 127, 128, 16383, 16384, 2 ** 21 - 1, 2 ** 21, 2 ** 32, 2 ** 64, 2 ** 133 - 1, 2 ** 133, 2 ** 200]
NUMS_SMALL = [0, 30, 31, 127, 128, 2 ** 32]
CLASSES = ['A', 'C', 'P']

BASES = {
    'BOOLEAN': True, 'INTEGER': 5, 'ENUMERATED': 1, 'BITSTRING': (5, 21), 'OCTETSTRING': b'ab', 'NULL': None,
    'OID': (1, 2, 3), 'REAL': (3, 2, 1), 'UTF8String': 'ab', 'NumericString': '12', 'PrintableString': 'ab',
    'TeletexString': 'ab', 'VideotexString': 'ab', 'IA5String': 'ab', 'GraphicString': 'ab', 'VisibleString': 'ab',
    'GeneralString': 'ab', 'UniversalString': 'ab', 'BMPString': 'ab', 'ObjectDescriptor': 'ab',
    'GeneralizedTime': '20170801120112Z', 'UTCTime': '170801120112Z',
    'SEQUENCE': {'a': 1}, 'SET': {'a': 1}, 'SEQUENCEOF': [1, 2], 'SETOF': [1],
}


def base_type(kind):
    if kind == 'ENUMERATED':
        return ir.mk('ENUMERATED', named=[['x', 1]])
    if kind in ('SEQUENCE', 'SET'):
        return ir.mk(kind, comps=[ir.comp('a', ir.mk('INTEGER'))])
    if kind in ('SEQUENCEOF', 'SETOF'):
        return ir.mk(kind, of=ir.mk('INTEGER'))
    return ir.mk(kind)


def shards(tier):
    out = []
    kinds = sorted(BASES)
    for i in range(8):
        out.append({'mode': 'enum', 'kinds': kinds[i::8], 'depth2': tier == 'thorough'})
    n, per = (8, 250) if tier == 'quick' else (16, 4000)
    for i in range(n):
        out.append({'mode': 'hyp', 'examples': per})
    return out


def expected_identifiers(T):
    stack, _hb = ir.tag_stack(T)
    out = []
    for i, (cls, num) in enumerate(stack):
        last = i == len(stack) - 1
        con = True if not last else T['k'] in ir.CONSTRUCTED_KINDS
        out.append((cls, con, num))
    return out


def wire_identifiers(enc, n):
    """Read n nested identifiers from the start of enc (each next one at the start of the previous contents)."""
    out = []
    pos = 0
    for _ in range(n):
        cls, con, num, ln, p = x690.parse_header(enc, pos)
        out.append((cls, con, num))
        pos = p
    return out


def perturbations(T):
    """Types whose effective tag stack differs from T's in exactly one position (class or number)."""
    stack, _hb = ir.tag_stack(T)
    out = []
    for i, (cls, num) in enumerate(stack):
        if cls == 'U':
            continue
        alts = set()
        for c in CLASSES:
            if c != cls:
                alts.add((c, num))
        for n2 in (num - 1, num + 1, 30 if num == 31 else None, 31 if num == 30 else None):
            if n2 is not None and n2 >= 0 and n2 != num:
                alts.add((cls, n2))
        # both at once, by offsets at which a (class << k) + number key would collide (k = 30, 32, 38 ... for the class values
        # 0x40 / 0x80 / 0xC0): still another tag
        order = ['U', 'A', 'C', 'P']
        for c in CLASSES:
            if c != cls:
                for k in (30, 32, 38):
                    n2 = num + (order.index(cls) - order.index(c)) * (0x40 << k)
                    if n2 >= 0:
                        alts.add((c, n2))
        for a in sorted(alts):
            st2 = list(stack)
            st2[i] = a
            out.append((i, a, from_stack(T, st2)))
    return out


def from_stack(T, stack):
    """A type like T whose effective tag stack is `stack` (outermost first)."""
    t = dict(T)
    inner = list(reversed(stack))          # innermost first
    tags = []
    if inner and inner[0][0] == 'U':
        inner = inner[1:]
    elif inner:
        tags.append(['I', inner[0][0], inner[0][1]])
        inner = inner[1:]
    for cls, num in inner:
        tags.append(['E', cls, num])
    t['tags'] = tags
    return t


def run_case(case):
    fails = []

    def F(sub, kind, msg, sig='', obs=None):
        fails.append({'sub': sub, 'kind': kind, 'sig': sig, 'msg': msg, 'obs': obs})

    T, v = case['T'], case['v']
    try:
        sch = build.schema(T)
    except error.PyAsn1Error as e:
        F('build', 'raises', 'subtype() refused a legal tag stack: %s' % e, harness.exc_sig(e))
        return fails
    members = [('', T, sch)]
    if case.get('pair'):
        members = [('.' + c['name'], c['t'], sch.componentType[i].asn1Object) for i, c in enumerate(T['comps'])]
    # tag-set algebra
    for name, t, s in members:
        exp = expected_identifiers(t)
        ts = s.tagSet
        got = [(ir.BITS_CLS[x.tagClass], bool(x.tagFormat), x.tagId) for x in reversed(list(ts.superTags))] \
            if hasattr(ts, 'superTags') else None
        if len(ts) != len(exp):
            F('algebra', 'length', '%s: tag set %s has %d tags, the type has %d' % (name, ts, len(ts), len(exp)))
        elif got is not None and [(c, n) for c, _f, n in got] != [(c, n) for c, _f, n in exp]:
            F('algebra', 'tags', '%s: tag set %s, expected %s' % (name, ts, exp))
    obj = build.value_from(sch, T, v)
    e = lib.encode('DER', obj)
    if not e.ok:
        F('encode', 'raises', e.brief(), e.sig)
        return fails
    enc = e.value
    # identifiers on the wire
    try:
        if case.get('pair'):
            top = x690.walk(enc)[0]
            for (name, t, s), kid in zip(members, top.kids):
                exp = expected_identifiers(t)
                got = wire_identifiers(enc[kid.start:kid.end], len(exp))
                if got != exp:
                    F('identifiers', 'mismatch', '%s: wire %s, type %s | enc=%s' % (name, got, exp, enc.hex()[:120]))
        else:
            exp = expected_identifiers(T)
            got = wire_identifiers(enc, len(exp))
            if got != exp:
                F('identifiers', 'mismatch', 'wire %s, type %s | enc=%s' % (got, exp, enc.hex()[:120]))
            if x690.der(T, v) != enc:
                F('identifiers', 'bytes', 'der.encode=%s reference=%s' % (enc.hex()[:120], x690.der(T, v).hex()[:120]))
    except x690.RefError as r:
        F('identifiers', 'unparsable', '%s %s | enc=%s' % (r.kind, r.msg, enc.hex()[:120]))
        return fails
    # the guiding type decides the tags: a value object of the untagged twin type (same fields, no tags), and the plain Python
    # tree, encoded with asn1Spec=T carry T's identifier octets
    T0 = dict(ir.from_jsonable(ir.to_jsonable(T)), tags=[])
    if case.get('pair'):
        T0['comps'] = [dict(c, t=dict(c['t'], tags=[])) for c in T0['comps']]
    try:
        o0 = build.value_from(build.schema(T0), T0, v)
    except Exception:
        o0 = None
    if o0 is not None:
        for codec in ('BER', 'DER'):
            g = lib.encode(codec, o0, asn1Spec=sch)
            want = enc if codec == 'DER' else lib.encode(codec, obj).value
            if not g.ok:
                F('guided', 'raises', '%s.encode(value of the untagged twin, asn1Spec=T) %s' % (codec.lower(), g.brief()), g.sig)
            elif g.value != want:
                F('guided', 'bytes', '%s.encode(value of the untagged twin, asn1Spec=T)=%s, encode(value of T)=%s' % (
                    codec.lower(), g.value.hex()[:120], (want or b'').hex()[:120]))
    # accepted by the type itself
    d = lib.decode('BER', enc, sch)
    if not d.ok:
        F('accept', 'raises', '%s | enc=%s' % (d.brief(), enc.hex()[:120]), d.sig)
    else:
        ok, why = absval.equal(T, d.value, v, sch)
        if not ok or d.rest != b'':
            F('accept', 'value', '%s rest=%s | enc=%s' % (why, bytes(d.rest).hex(), enc.hex()[:120]))
    # rejected by every near miss
    if case.get('pair'):
        near = []
        for ci, c in enumerate(T['comps']):
            for i, a, t2 in perturbations(c['t']):
                T2 = dict(T, comps=[dict(cc, t=(t2 if j == ci else cc['t'])) for j, cc in enumerate(T['comps'])])
                near.append(('%s[%d]->%s%d' % (c['name'], i, a[0], a[1]), T2))
    else:
        near = [('[%d]->%s%d' % (i, a[0], a[1]), t2) for i, a, t2 in perturbations(T)]
    for label, T2 in near:
        try:
            s2 = build.schema(T2)
        except error.PyAsn1Error:
            continue
        for codec in ('BER', 'DER'):
            d = lib.decode(codec, enc, s2)
            if d.ok:
                F('reject', 'accepted', '%s decoder accepted %s under the perturbed type %s' % (codec, enc.hex()[:80], label))
            elif d.status == 'leak':
                F('reject', 'leak', '%s | perturbation %s enc=%s' % (d.brief(), label, enc.hex()[:80]), d.sig)
    return fails


def static_algebra():
    """Tag-set algebra facts that do not depend on the generated stack."""
    fails = []
    base = univ.Integer().tagSet
    for fmt in (ptag.tagFormatSimple, ptag.tagFormatConstructed):
        try:
            base.tagExplicitly(ptag.Tag(ptag.tagClassUniversal, fmt, 7))
            fails.append({'sub': 'algebra', 'kind': 'universal-accepted', 'sig': '',
                          'msg': 'tagExplicitly accepted a UNIVERSAL class tag', 'obs': None})
        except error.PyAsn1Error:
            pass
    t = base.tagExplicitly(ptag.Tag(ptag.tagClassContext, ptag.tagFormatSimple, 3))
    if len(t) != len(base) + 1 or t[-1].tagFormat != ptag.tagFormatConstructed:
        fails.append({'sub': 'algebra', 'kind': 'explicit-form', 'sig': '', 'obs': None,
                      'msg': 'explicit tagging did not add exactly one constructed tag: %s' % t})
    t = univ.Sequence().tagSet.tagImplicitly(ptag.Tag(ptag.tagClassContext, ptag.tagFormatSimple, 3))
    if len(t) != 1 or t[-1].tagFormat != ptag.tagFormatConstructed:
        fails.append({'sub': 'algebra', 'kind': 'implicit-form', 'sig': '', 'obs': None,
                      'msg': 'implicit tagging of SEQUENCE lost the constructed form: %s' % t})
    t = base.tagImplicitly(ptag.Tag(ptag.tagClassContext, ptag.tagFormatConstructed, 3))
    if len(t) != 1 or t[-1].tagFormat != ptag.tagFormatSimple:
        fails.append({'sub': 'algebra', 'kind': 'implicit-form', 'sig': '', 'obs': None,
                      'msg': 'implicit tagging of INTEGER did not keep the primitive form: %s' % t})
    return fails


def replay(case):
    fl = static_algebra() if case.get('static') else run_case(case)
    return [dict(f, case=ir.to_jsonable(case), obs=ir.to_jsonable(f.get('obs'))) for f in fl]


def _record(col, case):
    T = case['T']
    stacks = [T['tags']] if not case.get('pair') else [c['t']['tags'] for c in T['comps']]
    nontriv = any(stacks)
    feats = ['depth=%d' % max(len(s) for s in stacks)]
    if any(n >= 31 for s in stacks for _m, _c, n in s):
        feats.append('high-tag-number')
    if case.get('pair'):
        feats.append('pair')
    col.case({'T': T}, nontriv, feats, sample={'type': ir.show_type(T), 'expected_identifiers':
                                                 [list(x) for x in expected_identifiers(T)] if not case.get('pair') else None})
    for f in run_case(case):
        col.fail(f['sub'], f['kind'], f['msg'], case, sig=f['sig'], obs=f.get('obs'))


def run_shard(desc, seed, tier, col):
    if desc['mode'] == 'enum':
        for f in static_algebra():
            col.fail(f['sub'], f['kind'], f['msg'], {'static': True}, sig=f['sig'])
        one = [[m, c, n] for m in 'IE' for c in CLASSES for n in NUMS]
        small = [[m, c, n] for m in 'IE' for c in CLASSES for n in NUMS_SMALL]
        for kind in desc['kinds']:
            stacks = [[]] + [[t] for t in one]
            if desc['depth2']:
                stacks += [[a, b] for a in small for b in small]
            for st in stacks:
                if col.out_of_time():
                    return
                T = base_type(kind)
                T['tags'] = [list(x) for x in st]
                _record(col, {'T': T, 'v': BASES[kind]})
        col.exhaustive = True
        return
    from hypothesis import strategies as st

    @st.composite
    def cases(draw):
        d = gen.D(draw, dict(gen.DEFAULT_CFG, implicit=True))

        def one():
            kind = d.pick(sorted(BASES))
            T = base_type(kind)
            T['tags'] = [[d.pick('IE'), d.pick(CLASSES), d.pick(NUMS) if d.pct(70) else d.int(0, 2 ** 40)]
                         for _ in range(d.int(1, 4))]
            return T, BASES[kind]
        if d.pct(35):
            a, va = one()
            b, vb = one()
            while ir.first_tags(a) == ir.first_tags(b):
                b, vb = one()
            T = ir.mk('SEQUENCE', comps=[ir.comp('a', a), ir.comp('b', b)])
            return {'T': T, 'v': {'a': va, 'b': vb}, 'pair': True}
        T, v = one()
        return {'T': T, 'v': v}

    harness.run_given(cases(), lambda c: _record(col, c), seed, desc['examples'], col)


FINDINGS = {}
