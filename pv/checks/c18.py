"""C18 - open types (ANY DEFINED BY) resolve by governing value and round-trip."""
from pyasn1 import error
from pyasn1.type import univ, namedtype, opentype, tag as ptag, constraint, base as _base

from pv.core import ir, gen, build, absval, lib, harness, x690
from pv.core import findings as fz

PROP = 'C18'
LEVEL = 'exploration'
DESIGN_REF = 'DESIGN.md 4/C18'
RULE = ('Hypothesis draws a type map {governing value (INTEGER or OID) -> type from U} with 1..3 entries, a SEQUENCE or SET '
        'container {id, blob, z} whose blob is ANY untagged / IMPLICIT / EXPLICIT or SEQUENCE OF / SET OF ANY governed by id, a '
        'governing value (mapped or not) and typed inner value(s), primitive and constructed; codec in {BER definite, BER '
        'indefinite, CER, DER}. Oracle: e = encode(container holding the typed inner value); decoding e with decodeOpenTypes=True '
        'gives, for a mapped governing value, the inner value decoded as the mapped type (same abstract content) and otherwise - '
        'and always with resolution off - a field holding exactly encode(inner value) (header and end-of-octets included); id, z '
        'and the remainder are unaffected; a caller-supplied openTypes map overrides the default one (also for values the '
        'default map lacks); the default map is filled before the container type is built, after it, or grown after it (it is '
        'documented as held by reference); the governing component may be declared DEFAULT (and then be absent from the '
        'wire); a caller map used for one container type and then for its twin without default map leaves the twin\'s field raw. Non-trivial = constructed inner value, tagged ANY, SET container or override present; distinct = '
        'distinct (map, container, value, codec, switches).')
RULE += (' ' + "Also: OPTIONAL field, absent governor, a second open type field with its own map, a list after the field, the container inside a tagged CHOICE, nested records whose inner record must see the caller's map, and same-size edits of the default map between two decodings (mapping dropped and another added; governing value re-bound to a type the payload cannot be). Also: the governing component declared after the field it governs.")
ASSUMPTIONS = ['values are compared by abstract content (pv/core/absval.py)']
SHARDS = {'quick': (16, 120), 'thorough': (16, 4000)}
BUDGET = {'quick': 100, 'thorough': 1500}
MIN_NONTRIVIAL = {'quick': 500, 'thorough': 5000}
INNER_CFG = {'any': False, 'max_depth': 1, 'long_str_pct': 0, 'real10_pct': 0, 'max_comps': 3, 'time_kinds': False}
CODECS = [('BER', {}), ('BER-indef', {'defMode': False}), ('CER', {}), ('DER', {})]
FIELDS = ['any', 'any-implicit', 'any-explicit', 'seqof-any', 'setof-any', 'seqof-any-explicit']
PERMISSIVE = {'INTEGER': lambda: constraint.ValueRangeConstraint(-10 ** 60, 10 ** 60),
              'OCTETSTRING': lambda: constraint.ValueSizeConstraint(0, 10 ** 7),
              'UTF8String': lambda: constraint.ValueSizeConstraint(0, 10 ** 7),
              'IA5String': lambda: constraint.ValueSizeConstraint(0, 10 ** 7),
              'BITSTRING': lambda: constraint.ValueSizeConstraint(0, 10 ** 8)}


def shards(tier):
    n, per = SHARDS[tier]
    return [{'examples': per, 'i': i} for i in range(n)]


def gov_py(kind, g):
    return tuple(g) if kind == 'OID' else g


LAST = {}


def make_schema(case, override=False):
    """-> (container schema, {gov -> inner schema}, override map or None)"""
    gk = case['gov_kind']
    inner = {}
    for g, T in case['map']:
        inner[gov_py(gk, g)] = build.schema(T)
    keycls = univ.ObjectIdentifier if gk == 'OID' else univ.Integer
    # opentype.py documents the map as "stored by reference and can be mutated later to register new mappings":
    # fill='late' registers every mapping after the container type exists, 'grow' the last one
    entries = [(keycls(k), s) for k, s in inner.items()]
    fill = case.get('fill', 'early')
    tmap = dict(entries if fill == 'early' else entries[:-1] if fill == 'grow' else [])
    ot = opentype.OpenType('id', tmap)
    f = case['field']
    any_ = univ.Any()
    if f in ('any-implicit',):
        any_ = any_.subtype(implicitTag=ptag.Tag(ptag.tagClassContext, ptag.tagFormatSimple, 3))
    elif f in ('any-explicit',):
        any_ = any_.subtype(explicitTag=ptag.Tag(ptag.tagClassContext, ptag.tagFormatConstructed, 3))
    if f == 'seqof-any':
        blob = univ.SequenceOf(componentType=univ.Any())
    elif f == 'setof-any':
        blob = univ.SetOf(componentType=univ.Any())
    elif f == 'seqof-any-explicit':
        blob = univ.SequenceOf(componentType=univ.Any().subtype(explicitTag=ptag.Tag(ptag.tagClassContext, ptag.tagFormatConstructed, 3))).subtype(
            implicitTag=ptag.Tag(ptag.tagClassContext, ptag.tagFormatConstructed, 4))
    else:
        blob = any_
    cls = univ.Sequence if case['container'] == 'SEQUENCE' else univ.Set
    extra = []
    if case.get('second'):
        # a second open type field governed by the SAME component through its own map (opcode -> argument, result)
        sec = case['second']
        ot2 = opentype.OpenType('id', {keycls(gov_py(gk, case['gov'])): build.schema(sec['type'])} if sec['mapped'] else {})
        extra = [namedtype.NamedType('blob2', univ.Any().subtype(explicitTag=ptag.Tag(ptag.tagClassContext, ptag.tagFormatConstructed, 6)), openType=ot2)]
    govs = keycls()
    id_nt = namedtype.NamedType('id', govs)
    if case.get('gov_absent'):
        id_nt = namedtype.OptionalNamedType('id', govs)         # ... and left out of the value: nothing governs the field
    elif case.get('gov_default') is not None:
        # the governing component is declared DEFAULT: when the value equals the default it is not on the wire at all
        id_nt = namedtype.DefaultedNamedType('id', keycls(gov_py(gk, case['gov_default'])))
    z = univ.Integer().subtype(implicitTag=ptag.Tag(ptag.tagClassContext, ptag.tagFormatSimple, 9))
    members = [id_nt, (namedtype.OptionalNamedType if case.get('blob_opt') else namedtype.NamedType)('blob', blob, openType=ot)] + extra + [
        namedtype.NamedType('z', z),
        # (a list after the open type field: options meant for the open type elements must not reach it)
        namedtype.NamedType('zs', univ.SequenceOf(componentType=univ.Integer()).subtype(
            implicitTag=ptag.Tag(ptag.tagClassContext, ptag.tagFormatConstructed, 10)))]
    if case.get('gov_after'):
        # the governing component is declared AFTER the field it governs (ANY DEFINED BY does not prescribe an order)
        members = members[1:] + members[:1]
    sch = cls(componentType=namedtype.NamedTypes(*members))
    tmap.update(entries)
    LAST['tmap'] = tmap
    if case.get('wrap_choice'):
        # the container is the alternative of an explicitly tagged CHOICE (decode options must travel through it)
        sch = univ.Choice(componentType=namedtype.NamedTypes(namedtype.NamedType('c', sch), namedtype.NamedType('n', univ.Null()))).subtype(
            explicitTag=ptag.Tag(ptag.tagClassContext, ptag.tagFormatConstructed, 5))
    return sch, inner


def run_case(case):
    fails = []

    def F(sub, kind, msg, sig=''):
        fails.append({'sub': sub, 'kind': kind, 'sig': sig, 'msg': msg, 'obs': None})

    gk = case['gov_kind']
    try:
        sch, inner = make_schema(case)
    except error.PyAsn1Error as e:
        F('schema', 'raises', 'building the open type schema raised %s' % harness.exc_sig(e), harness.exc_sig(e))
        return fails
    own_tmap = LAST.get('tmap')
    g = gov_py(gk, case['gov'])
    Tin = case['inner_type']
    vals = case['inner_values']
    is_of = case['field'].startswith(('seqof', 'setof'))
    mapped = any(gov_py(gk, k) == g for k, _t in case['map'])
    in_sch = inner[g] if mapped else build.schema(Tin)
    in_objs = [build.value_from(in_sch, Tin, v) for v in vals]
    # known finding F05 (the canonical encoders drop a present OPTIONAL constructed component with empty contents) applies to an
    # OPTIONAL open type field holding an empty constructed inner value: reported by C02 / C03, kept out of here
    f05 = False
    if case.get('blob_opt'):
        # (the omission flag travels down: any element with empty contents below the field is dropped, too)
        for v in vals:
            top, _e = x690.walk(x690.der(Tin, v))
            f05 = f05 or any(n.end == n.hdr_end for n in x690.nodes(top))
        f05 = f05 or (is_of and not vals)
    for cname, kw in CODECS:
        codec = cname.split('-')[0]
        if f05 and codec in ('CER', 'DER'):
            continue
        top = None
        if case.get('wrap_choice'):
            top = sch.clone()
            s = top.getComponentByName('c')
        else:
            s = sch.clone()
        s.clear()
        if not case.get('gov_absent'):
            s['id'] = g
        try:
            if is_of:
                s['blob'].clear() if hasattr(s['blob'], 'clear') else None
                for o in in_objs:
                    s['blob'].append(o)
            else:
                s['blob'] = in_objs[0]
            s['z'] = 7
            s['zs'].extend([1, 2])
            if case.get('second'):
                s['blob2'] = build.value_from(build.schema(case['second']['type']), case['second']['type'], case['second']['value'])
        except (error.PyAsn1Error, IndexError, KeyError) as e:
            F('build-' + cname, 'raises', 'putting the typed inner value into the open field raised %s: %s' % (harness.exc_sig(e), str(e)[:120]), harness.exc_sig(e))
            continue
        e = lib.encode(codec, top if top is not None else s, **kw)
        if not e.ok:
            F('encode-' + cname, 'raises', '%s | field=%s inner=%s' % (e.brief(), case['field'], ir.show_type(Tin)[:80]), e.sig)
            continue
        raw = []
        bad = False
        for o in in_objs:
            r = lib.encode(codec, o, **kw)
            if not r.ok:
                bad = True
                break
            raw.append(r.value)
        if bad:
            continue
        switches = [('resolve', {'decodeOpenTypes': True}), ('raw', {})]
        if case.get('override'):
            switches.append(('override', None))
        if mapped:
            switches.append(('carried', None))
        for sw, opts in switches:
            sub = '%s-%s' % (sw, cname)
            expect_typed = mapped if sw == 'resolve' else (sw == 'override')
            if case.get('gov_absent'):
                expect_typed = False
            chk_sch = in_sch
            if sw == 'override':
                ov = in_sch.subtype(subtypeSpec=constraint.ConstraintsIntersection(PERMISSIVE[Tin['k']]()))
                keycls = univ.ObjectIdentifier if gk == 'OID' else univ.Integer
                opts = {'openTypes': {keycls(g): ov}, 'decodeOpenTypes': case['override'] == 'with-flag'}
                chk_sch = ov
            dsch = sch
            if sw == 'carried':
                # one caller-supplied map (holding an unrelated entry) serves two decodings: first under this container type,
                # then under its twin whose default map is empty - there the governing value is unmapped, the field stays raw
                keycls = univ.ObjectIdentifier if gk == 'OID' else univ.Integer
                caller = {keycls((1, 3, 6, 9999, 1) if gk == 'OID' else 9999): univ.Null()}
                opts = {'openTypes': caller, 'decodeOpenTypes': True}
                lib.decode(codec, e.value, sch, **opts)
                dsch, _inner2 = make_schema(dict(case, map=[], fill='early'))
            d = lib.decode(codec, e.value, dsch, **opts)
            if not d.ok:
                F(sub, 'decode-raises', '%s | e=%s field=%s inner=%s' % (d.brief(), e.value.hex()[:120], case['field'], ir.show_type(Tin)[:60]), d.sig)
                continue
            if d.rest != b'':
                F(sub, 'remainder', 'remainder %s | e=%s' % (bytes(d.rest).hex()[:40], e.value.hex()[:120]))
            r = d.value
            try:
                if case.get('wrap_choice'):
                    r = r['c']
                if [int(x) for x in r['zs']] != [1, 2]:
                    F(sub, 'other-components', 'the list after the open type field came back as %s | e=%s' % (r['zs'].prettyPrint()[:60], e.value.hex()[:120]))
                if case.get('second') and sw in ('resolve', 'raw'):
                    sec = case['second']
                    f2 = r['blob2']
                    raw2 = lib.encode(codec, build.value_from(build.schema(sec['type']), sec['type'], sec['value']), **kw)
                    if sw == 'resolve' and sec['mapped'] and not case.get('gov_absent'):
                        if isinstance(f2, univ.Any):
                            F(sub, 'second-not-resolved', 'the second open type field (own map) still holds raw octets | e=%s' % e.value.hex()[:120])
                        else:
                            ok2, why2 = absval.equal(sec['type'], f2, sec['value'], build.schema(sec['type']))
                            if not ok2:
                                F(sub, 'second-value', 'second open type field: %s | e=%s' % (why2, e.value.hex()[:120]))
                    elif not isinstance(f2, univ.Any):
                        F(sub, 'second-resolved-unasked', 'the second open type field was decoded as %s although its own map does not map the governing value / resolution is off | e=%s' % (
                            type(f2).__name__, e.value.hex()[:120]))
                    elif raw2.ok and bytes(f2.asOctets()) != raw2.value:
                        F(sub, 'second-octets', 'second field holds %s, encode(inner) is %s' % (bytes(f2.asOctets()).hex()[:60], raw2.value.hex()[:60]))
                rid = r['id']
                if case.get('gov_absent'):
                    okid = not rid.isValue
                else:
                    okid = (tuple(rid) == g) if gk == 'OID' else (int(rid) == g)
                if not okid or int(r['z']) != 7:
                    F(sub, 'other-components', 'id / z changed: id=%s z=%s | e=%s' % (rid.prettyPrint(), r['z'].prettyPrint(), e.value.hex()[:120]))
                if not r['blob'].isValue:
                    F(sub, 'field-missing', 'the open type field is absent from the decoded container | e=%s' % e.value.hex()[:120])
                    continue
                fields = [r['blob'][i] for i in range(len(r['blob']))] if is_of else [r['blob']]
            except Exception as ex:
                F(sub, 'result-shape', 'reading the decoded container raised %s | e=%s' % (harness.exc_sig(ex), e.value.hex()[:120]), harness.exc_sig(ex))
                continue
            if len(fields) != len(vals):
                F(sub, 'count', '%d elements in the open field, %d encoded | e=%s' % (len(fields), len(vals), e.value.hex()[:120]))
                continue
            order = list(range(len(vals)))
            if case['field'] == 'setof-any' and codec in ('CER', 'DER') and len(vals) > 1:
                # SET OF members are sorted by the canonical encoders
                mx = max(len(x) for x in raw)
                order = sorted(order, key=lambda i: raw[i].ljust(mx, b'\x00'))
            for pos, i in enumerate(order):
                fld = fields[pos]
                if expect_typed:
                    if isinstance(fld, univ.Any) and not isinstance(chk_sch, univ.Any):
                        F(sub, 'not-resolved', 'open field still holds raw octets %s, expected a %s | e=%s' % (
                            bytes(fld.asOctets()).hex()[:40], type(chk_sch).__name__, e.value.hex()[:120]))
                        continue
                    ok, why = absval.equal(Tin, fld, vals[i], chk_sch)
                    if not ok:
                        F(sub, 'value', 'resolved value: %s | e=%s' % (why, e.value.hex()[:120]))
                    elif sw == 'override' and fld.subtypeSpec != chk_sch.subtypeSpec:
                        F(sub, 'override-ignored', 'the field was decoded with the default map, not the caller\'s | e=%s' % e.value.hex()[:120])
                else:
                    if not isinstance(fld, univ.Any) and not isinstance(fld, univ.OctetString):
                        F(sub, 'resolved-unasked', 'field decoded as %s although resolution is %s | e=%s' % (
                            type(fld).__name__, 'off' if sw == 'raw' else 'impossible (unmapped id)', e.value.hex()[:120]))
                        continue
                    got = bytes(fld.asOctets())
                    if got != raw[i]:
                        F(sub, 'octets', 'field holds %s, encode(inner) is %s | e=%s' % (got.hex()[:60], raw[i].hex()[:60], e.value.hex()[:120]))
        # the default map is the caller's dict, "stored by reference and can be mutated later": after it served a decoding it is
        # edited WITHOUT changing its size - the mapping of the governing value dropped and an unrelated one added; then the
        # governing value bound to a type the payload cannot be - and each time the next decoding goes by the map as it is now
        if mapped and not case.get('gov_absent') and cname == CODECS[0][0] and not case.get('second'):
            keycls = univ.ObjectIdentifier if gk == 'OID' else univ.Integer
            tmap = own_tmap
            key = next((k for k in tmap if (tuple(k) == g if gk == 'OID' else int(k) == g)), None) if tmap is not None else None
            if key is not None:
                old = tmap[key]
                other = keycls((1, 3, 6, 9998, 7) if gk == 'OID' else 9998)
                try:
                    lib.decode(codec, e.value, sch, decodeOpenTypes=True)
                    del tmap[key]
                    tmap[other] = univ.Null()
                    d = lib.decode(codec, e.value, sch, decodeOpenTypes=True)
                    if not d.ok:
                        F('edited-map-' + cname, 'decode-raises', 'after the mapping was dropped: %s | e=%s' % (d.brief(), e.value.hex()[:120]), d.sig)
                    else:
                        r = d.value['c'] if case.get('wrap_choice') else d.value
                        flds = [r['blob'][i] for i in range(len(r['blob']))] if is_of else [r['blob']]
                        if any(not isinstance(x, univ.Any) for x in flds):
                            F('edited-map-' + cname, 'stale-map', 'the mapping of the governing value was dropped from the map (another one added), the field is still '
                              'decoded as %s | e=%s' % (type(flds[0]).__name__, e.value.hex()[:120]))
                    del tmap[other]
                    tmap[key] = univ.Integer().subtype(implicitTag=ptag.Tag(ptag.tagClassPrivate, ptag.tagFormatSimple, 12345))
                    d = lib.decode(codec, e.value, sch, decodeOpenTypes=True)
                    if d.ok and vals:
                        F('edited-map-' + cname, 'stale-map', 'the governing value was re-bound to [PRIVATE 12345] INTEGER, the payload is still accepted | e=%s' % e.value.hex()[:120])
                    elif not d.ok and d.status == 'leak':
                        F('edited-map-' + cname, 'leak', d.brief(), d.sig)
                finally:
                    tmap.pop(other, None)
                    tmap[key] = old
    return fails


def run_nested(case):
    """An open type value that is itself a record with an open type field (ContentInfo -> ... -> Attribute style): the outer field
    is resolved by the default map, the inner one only by the caller-supplied map, which therefore has to reach the nested
    decoding. case: {'nested': True, 'x': int, 'tagged': bool}"""
    fails = []
    ex6 = ptag.Tag(ptag.tagClassContext, ptag.tagFormatConstructed, 6)
    ex3 = ptag.Tag(ptag.tagClassContext, ptag.tagFormatConstructed, 3)
    innerRec = univ.Sequence(componentType=namedtype.NamedTypes(
        namedtype.NamedType('id2', univ.Integer()),
        namedtype.NamedType('blob2', univ.Any().subtype(explicitTag=ex6), openType=opentype.OpenType('id2', {}))))
    outer = univ.Sequence(componentType=namedtype.NamedTypes(
        namedtype.NamedType('id', univ.Integer()),
        namedtype.NamedType('blob', univ.Any().subtype(explicitTag=ex3) if case['tagged'] else univ.Any(), openType=opentype.OpenType('id', {1: innerRec}))))
    for cname, kw in CODECS:
        codec = cname.split('-')[0]
        iv = innerRec.clone()
        iv['id2'] = 7
        iv['blob2'] = univ.OctetString(b'v%d' % case['x'])       # (a string: explicit tags over INTEGER in indefinite form are finding F01)
        ov = outer.clone()
        ov['id'] = 1
        ov['blob'] = iv
        e = lib.encode(codec, ov, **kw)
        if not e.ok:
            fails.append({'sub': 'nested-' + cname, 'kind': 'encode-raises', 'sig': e.sig, 'msg': e.brief(), 'obs': None})
            continue
        d = lib.decode(codec, e.value, outer, openTypes={univ.Integer(7): univ.OctetString()}, decodeOpenTypes=True)
        if not d.ok:
            fails.append({'sub': 'nested-' + cname, 'kind': 'decode-raises', 'sig': d.sig, 'msg': '%s | e=%s' % (d.brief(), e.value.hex()[:120]), 'obs': None})
            continue
        try:
            mid = d.value['blob']
            leaf = mid['blob2']
            ok = isinstance(leaf, univ.OctetString) and not isinstance(leaf, univ.Any) and bytes(leaf.asOctets()) == b'v%d' % case['x'] and int(mid['id2']) == 7
        except Exception as ex:
            ok, leaf = False, 'raises %s' % harness.exc_sig(ex)
        if not ok:
            fails.append({'sub': 'nested-' + cname, 'kind': 'not-resolved', 'sig': '', 'obs': None,
                          'msg': 'the nested open type field (only the caller map maps its governing value) came back as %r | e=%s' % (leaf, e.value.hex()[:120])})
    return fails


def replay(case):
    if case.get('nested'):
        return [dict(f, case=ir.to_jsonable(case), obs=None) for f in run_nested(case)]
    return _replay(case)


def _replay(case):
    return [dict(f, case=ir.to_jsonable(case), obs=None) for f in run_case(case)]


def run_shard(desc, seed, tier, col):
    from hypothesis import strategies as st

    @st.composite
    def cases(draw):
        d = gen.D(draw, dict(gen.DEFAULT_CFG, **INNER_CFG))
        if d.pct(4):
            return {'nested': True, 'x': d.int(-300, 70000), 'tagged': d.pct(50)}
        gk = d.pick(['INTEGER', 'INTEGER', 'OID'])
        n = d.int(1, 3)
        keys = []
        while len(keys) < n:
            k = d.int(1, 40) if gk == 'INTEGER' else (1, 3, 6, d.int(1, 300), d.int(0, 5))
            if k not in keys:
                keys.append(k)
        types = [gen.draw_type(d, 1, root=False, allow_any=False) for _ in keys]
        mp = [[list(k) if gk == 'OID' else k, t] for k, t in zip(keys, types)]
        container = d.pick(['SEQUENCE', 'SEQUENCE', 'SET'])
        field = d.pick(FIELDS)
        if container == 'SET' and field == 'any':
            field = 'any-explicit'
        mapped = d.pct(75)
        if mapped:
            i = d.int(0, n - 1)
            gov, Tin = mp[i][0], mp[i][1]
        else:
            gov = 99 if gk == 'INTEGER' else [1, 3, 6, 999, 9]
            Tin = gen.draw_type(d, 1, root=False, allow_any=False)
        nvals = d.int(0, 3) if field.startswith(('seqof', 'setof')) else 1
        vals = [gen.draw_value(d, Tin) for _ in range(nvals)]
        case = {'gov_kind': gk, 'map': mp, 'container': container, 'field': field, 'gov': gov, 'inner_type': Tin, 'inner_values': vals}
        if Tin['k'] in PERMISSIVE and not Tin.get('tags') and d.pct(60):
            case['override'] = d.pick(['with-flag', 'map-only'])
        case['fill'] = d.pick(['early', 'early', 'late', 'grow'])
        if d.pct(15):
            case['wrap_choice'] = True
        if d.pct(25) and not case.get('override') and container == 'SEQUENCE':
            T2 = gen.draw_type(d, 1, root=False, allow_any=False)
            case['second'] = {'mapped': d.pct(60), 'type': T2, 'value': gen.draw_value(d, T2)}
        if d.pct(25) and case['field'] != 'any':
            case['blob_opt'] = True         # the open type field itself is OPTIONAL (and present); an untagged OPTIONAL ANY in
                                            # front of another component would be ambiguous
        if d.pct(10):
            case['gov_absent'] = True
            if case['field'] == 'any':
                case['field'] = 'any-explicit'
        elif d.pct(35):
            case['gov_default'] = gov if d.pct(65) else mp[0][0]
            if case['field'] == 'any':
                case['field'] = 'any-explicit'      # an untagged ANY after a component that may be absent would be ambiguous
        elif d.pct(25) and case['field'] != 'any' and not case.get('second'):
            case['gov_after'] = True
        return case

    def body(case):
        if case.get('nested'):
            col.case(case, True, ['nested-open-types'], sample={'shape': 'record -> ANY DEFINED BY -> record -> ANY DEFINED BY (caller map)', 'leaf': case['x']})
            for f in run_nested(case):
                col.fail(f['sub'], f['kind'], f['msg'], case, sig=f['sig'])
            return
        Tin = case['inner_type']
        nontriv = ir.depth(Tin) >= 1 or case['field'] != 'any' or case['container'] == 'SET' or bool(case.get('override'))
        feats = ['field:' + case['field'], 'container:' + case['container'], 'gov:' + case['gov_kind'],
                 'mapped' if any(k == case['gov'] for k, _t in case['map']) else 'unmapped',
                 'inner:constructed' if ir.depth(Tin) >= 1 else 'inner:primitive'] + (['override'] if case.get('override') else []) + ['map-fill:' + case['fill']] + (['governor-DEFAULT' + ('=value' if case.get('gov_default') == case['gov'] else '')] if case.get('gov_default') is not None else []) + (['field-OPTIONAL'] if case.get('blob_opt') else []) + (['governor-absent'] if case.get('gov_absent') else []) + (['inside-tagged-CHOICE'] if case.get('wrap_choice') else []) + (['second-open-field'] if case.get('second') else []) + (['governor-after-field'] if case.get('gov_after') else [])
        col.case(case, nontriv, feats, sample={'map': [[k, ir.show_type(t)[:60]] for k, t in case['map']], 'container': case['container'],
                                               'field': case['field'], 'governing_value': case['gov'], 'inner_type': ir.show_type(Tin)[:80],
                                               'inner_values': absval.short(case['inner_values'], 100)})
        seen = set()
        for f in run_case(case):
            key = (f['sub'], f['kind'], f['sig'])
            if key in seen:
                continue
            seen.add(key)
            col.fail(f['sub'], f['kind'], f['msg'], case, sig=f['sig'])

    harness.run_given(cases(), body, seed, desc['examples'], col)



# ---------------------------------------------------------------- known findings

def _f_eoo(failure):
    """F01 in the inner value (or the governing / other components): indefinite-length output only."""
    if not failure['sub'].endswith(('-CER', '-BER-indef')):
        return False
    case = fz.case_of(failure)
    if case.get('nested'):
        return False
    Tin = case['inner_type']
    if any(fz.explicit_over_nonindef_prim(Tin, v) for v in case['inner_values']):
        return True
    sec = case.get('second')
    return bool(sec) and fz.explicit_over_nonindef_prim(sec['type'], sec['value'])




FINDINGS = {'F01-stray-eoo': _f_eoo}
