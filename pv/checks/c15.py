"""C15 - DER/CER decoders enforce the canonical restrictions they implement, everywhere."""
from pv.core import ir, gen, build, absval, lib, harness, x690
from pv.core import findings as fz

PROP = 'C15'
LEVEL = 'exploration'
DESIGN_REF = 'DESIGN.md 4/C15'
RULE = ('Hypothesis draws (T, v) from U (without ANY, whose contents are opaque to every decoder); e = reference DER of v; for '
        'EVERY node of the TLV tree of e and every applicable single rewrite - constructed element or explicit wrapper -> '
        'indefinite length, primitive string element (string-ness taken from the type, so implicitly tagged strings count) -> '
        'one level of segments (two, one, and for an empty string also none), BOOLEAN FF -> 01 / 7F / 80 / FE - the rewritten e\' (validated by the reference reader as a BER '
        'encoding of the same value) must be rejected with PyAsn1Error by der.decode (all three kinds) and cer.decode (BOOLEAN), '
        'with the guiding type and, when T has no IMPLICIT tag, without it. Control arm: der.decode(e) and ber.decode(e\') return '
        'v. Non-trivial = the rewritten node is nested, tagged, or decoded under a guiding type; distinct = distinct (e\', decoder, '
        'guided?).')
RULE += (' ' + 'Also: native=True; one caller-owned partial typeMap= dict serving ber.decode and then the strict decoder; the strict decoder as a suspended StreamingDecoder (input in two bursts) while ber.decode works on the same octets in between; rewrites inside the payload of a resolved open type field.')
ASSUMPTIONS = ['the rewritten encoding is a legal BER encoding of the same value (checked with pv/core/x690.py on every case)']
SHARDS = {'quick': (16, 120), 'thorough': (16, 3000)}
BUDGET = {'quick': 100, 'thorough': 1500}
MIN_NONTRIVIAL = {'quick': 500, 'thorough': 5000}
CFG = {'any': False, 'long_str_pct': 0, 'max_depth': 3, 'many_elems_pct': 0}
TECHNIQUE = 'property-based testing: exhaustive single-node non-canonical rewrites of generated DER encodings'


def shards(tier):
    n, per = SHARDS[tier]
    return [{'examples': per, 'i': i} for i in range(n)]


def rewrites(T, v):
    """-> (e, [(kind, node description, e')])"""
    e = x690.der(T, v)
    top, _end = x690.walk(e)
    _v, tr = x690.read_traced(T, e)
    typed = {r['start']: r['T'] for r in tr}
    out = []
    for n in x690.nodes(top):
        t = typed.get(n.start)
        where = 'depth=%d%s' % (n.depth, '' if t is None else ' ' + t['k'])
        if n.con:
            out.append(('indef', where, n, x690.reserialize(e, top, n, 'indef')))
        elif t is not None and t['k'] in ir.STRING_KINDS:
            bits = t['k'] == 'BITSTRING'
            body = e[n.hdr_end:n.end]
            out.append(('segment', where, n, x690.reserialize(e, top, n, 'segment', bits)))
            if len(body) - bits >= 2:
                out.append(('segment', where + ' one-segment', n, x690.reserialize(e, top, n, 'segment', (bits, 1))))
            if len(body) - bits == 0:
                out.append(('segment', where + ' no-segment', n, x690.reserialize(e, top, n, 'segment', (bits, 0))))
        elif t is not None and t['k'] == 'BOOLEAN' and e[n.hdr_end:n.end] == b'\xff':
            for octet in (0x01, 0x7f, 0x80, 0xfe):
                out.append(('true', where + ' %02x' % octet, n, x690.reserialize(e, top, n, 'content', bytes([octet]))))
    return e, out


def implicit_free(T):
    return not any(m == 'I' for t in fz.type_nodes(T) for m, _c, _n in t.get('tags', ()))


def interleaved(dec, e2, cut, spec, sch):
    """-> None when the strict streaming decoder refuses e2, else (kind, message)."""
    from pv.core import streams
    from pyasn1 import error as _err
    st = streams.SeekableFeed()
    st.feed_bytes(e2[:cut])
    got = []
    try:
        it = iter(lib.DEC[dec].StreamingDecoder(st, asn1Spec=spec) if spec is not None else lib.DEC[dec].StreamingDecoder(st))
        for _ in range(3):
            x = next(it, None)
            if x is None or not isinstance(x, _err.SubstrateUnderrunError):
                return None if x is None else ('accepted', 'a value came out of the first %d octets' % cut)
        # meanwhile, elsewhere in the process
        lib.decode('BER', e2, None)
        lib.decode('BER', e2, sch)
        st.feed_bytes(e2[cut:])
        st.finish()
        for _ in range(8 * len(e2) + 16):
            x = next(it, None)
            if x is None:
                break
            if not isinstance(x, _err.SubstrateUnderrunError):
                got.append(x)
    except _err.PyAsn1Error:
        return None
    except Exception as ex:
        return ('leak', 'leaked %s' % harness.exc_sig(ex))
    if got:
        return ('accepted', 'the decoder handed out %d value(s)' % len(got))
    return None


def run_case(case, col=None):
    T, v = case['T'], case['v']
    fails = []

    def F(sub, kind, msg, sig='', obs=None):
        fails.append({'sub': sub, 'kind': kind, 'sig': sig, 'msg': msg, 'obs': obs})

    sch = build.schema(T)
    e, rws = rewrites(T, v)
    only = case.get('only')          # replay of one rewrite: [kind, index]
    d0 = lib.decode('DER', e, sch)
    control_ok = d0.ok and d0.rest == b'' and absval.equal(T, d0.value, v, sch)[0]
    if not control_ok:
        if col is not None:
            col.exclude('control arm: der.decode(e) does not return v (belongs to C02)')
        return fails
    schemaless = implicit_free(T)
    for idx, (kind, where, node, e2) in enumerate(rws):
        if only is not None and only != idx:
            continue
        try:
            if not ir.same(T, x690.read(T, e2), v):
                raise harness.HarnessError('rewrite changed the value: %s' % e2.hex()[:200])
        except x690.RefError as r:
            raise harness.HarnessError('rewrite is not valid BER (%s %s): %s' % (r.kind, r.msg, e2.hex()[:200]))
        b = lib.decode('BER', e2, sch)
        if not (b.ok and b.rest == b'' and absval.equal(T, b.value, v, sch)[0]):
            if col is not None:
                col.exclude('control arm: ber.decode(rewritten) does not return v (belongs to C09)')
            continue
        decs = ['DER'] + (['CER'] if kind == 'true' else [])
        for dec in decs:
            for guided in (True, False):
                if not guided and not schemaless:
                    continue
                if not guided:
                    # control arm of the schemaless run - and, as in any real process, the BER decoder has seen the tags first
                    b0 = lib.decode('BER', e2, None)
                    if not (b0.ok and b0.rest == b''):
                        if col is not None:
                            col.exclude('control arm: schemaless ber.decode(rewritten) refuses (belongs to C09/C16)')
                        continue
                d = lib.decode(dec, e2, sch if guided else None)
                nontriv = node.depth >= 1 or bool(T.get('tags')) or guided
                if col is not None:
                    col.case(e2 + dec.encode() + (b'g' if guided else b's'), nontriv,
                             ['rewrite:' + kind, 'decoder:' + dec, 'guided' if guided else 'schemaless', 'node-depth=%d' % min(node.depth, 4)],
                             sample={'type': ir.show_type(T), 'der': e.hex()[:120], 'rewritten': e2.hex()[:120],
                                     'rewrite': kind, 'node': where, 'decoder': dec, 'guided': guided})
                sub = '%s-%s' % (dec.lower(), 'guided' if guided else 'schemaless')
                if not d.ok and kind == 'true':
                    # the same decoder asked for plain Python values (native=True) enforces the same restriction
                    dn = lib.decode(dec, e2, sch if guided else None, native=True)
                    if dn.ok:
                        F(sub + '-native', 'accepted:' + kind, '%s.decode(native=True) accepted the %s rewrite at %s: %s (DER %s)' % (
                            dec.lower(), kind, where, e2.hex()[:120], e.hex()[:120]), obs={'rewrite': idx, 'kind': kind, 'where': where})
                if not d.ok and d.status != 'leak' and guided:
                    # one caller-owned (partial) typeMap= dict serving several codecs, as an application with one registry of
                    # its own payload decoders has it: what the BER decoder did with it must not soften the strict one
                    tm = {}
                    lib.decode('BER', e, sch, typeMap=tm)
                    ds = lib.decode(dec, e2, sch, typeMap=tm)
                    if ds.ok and not lib.decode(dec, e2, sch, typeMap={}).ok:
                        F(sub + '-sharedmap', 'accepted:' + kind, '%s.decode(typeMap=m) accepted the %s rewrite at %s after ber.decode had used the same m: %s' % (
                            dec.lower(), kind, where, e2.hex()[:120]), obs={'rewrite': idx, 'kind': kind, 'where': where})
                if not d.ok and d.status != 'leak' and len(e2) >= 4 and node.depth >= 1:
                    # the same decoder as a suspended streaming decoder: the input arrives in two bursts, and while the source is
                    # dry the process decodes something else with the BER decoder (one thread, calls interleaved step by step)
                    for cut in sorted({2, len(e2) // 2}):
                        if not 0 < cut < len(e2):
                            continue
                        r = interleaved(dec, e2, cut, sch if guided else None, sch)
                        if r is not None:
                            F(sub + '-interleaved', r[0] + ':' + kind, '%s StreamingDecoder, input cut at %d with a ber.decode in between: %s | %s (DER %s)' % (
                                dec.lower(), cut, r[1], e2.hex()[:120], e.hex()[:120]), obs={'rewrite': idx, 'kind': kind, 'where': where})
                            break
                if d.ok:
                    F(sub, 'accepted:' + kind, '%s.decode accepted the %s rewrite at %s: %s (DER %s)' % (
                        dec.lower(), kind, where, e2.hex()[:120], e.hex()[:120]), obs={'rewrite': idx, 'kind': kind, 'where': where})
                elif d.status == 'leak':
                    F(sub, 'leak:' + kind, '%s | %s' % (d.brief(), e2.hex()[:120]), d.sig, obs={'rewrite': idx, 'kind': kind})
    return fails


OUTER = {'k': 'SEQUENCE', 'tags': [], 'comps': [{'name': 'id', 't': {'k': 'INTEGER', 'tags': []}, 'p': 'req'},
                                                {'name': 'blob', 't': {'k': 'ANY', 'tags': []}, 'p': 'req'},
                                                {'name': 'z', 't': {'k': 'INTEGER', 'tags': [['I', 'C', 9]]}, 'p': 'req'},
                                                {'name': 'zs', 't': {'k': 'SEQUENCEOF', 'tags': [['I', 'C', 10]], 'of': {'k': 'INTEGER', 'tags': []}}, 'p': 'req'}]}
OT_STATS = {'tried': 0, 'dead': 0}


def run_opentype(case, col=None):
    """The offending element sits inside the payload of an open type field that the decoder resolves."""
    from pv.checks import c18
    T, v = case['T'], case['v']
    fails = []
    sch, _inner = c18.make_schema({'gov_kind': 'INTEGER', 'map': [[1, T]], 'container': 'SEQUENCE', 'field': 'any'})
    inner_e, rws = rewrites(T, v)
    e = x690.der(OUTER, {'id': 1, 'blob': inner_e, 'z': 7, 'zs': [1, 2]})
    d0 = lib.decode('DER', e, sch, decodeOpenTypes=True)
    OT_STATS['tried'] += 1
    if not (d0.ok and d0.rest == b'' and not isinstance(d0.value['blob'], build.univ.Any)):
        OT_STATS['dead'] += 1
        if col is not None:
            col.exclude('control arm: der.decode of the canonical open type container fails (C18)')
        return fails
    for idx, (kind, where, node, inner2) in enumerate(rws):
        if case.get('only') is not None and case['only'] != idx:
            continue
        e2 = x690.der(OUTER, {'id': 1, 'blob': inner2, 'z': 7, 'zs': [1, 2]})
        b = lib.decode('BER', e2, sch, decodeOpenTypes=True)
        if not (b.ok and b.rest == b''):
            if col is not None:
                col.exclude('control arm: ber.decode of the rewritten container fails (C09 / C18)')
            continue
        d = lib.decode('DER', e2, sch, decodeOpenTypes=True)
        if col is not None:
            col.case(e2 + b'opentype', True, ['rewrite:' + kind, 'decoder:DER', 'open-type-payload', 'node-depth=%d' % min(node.depth + 1, 4)],
                     sample={'inner_type': ir.show_type(T), 'der': e.hex()[:120], 'rewritten': e2.hex()[:120], 'rewrite': kind,
                             'node': 'open type payload, ' + where, 'decoder': 'DER', 'guided': True})
        if d.ok:
            fails.append({'sub': 'der-opentype', 'kind': 'accepted:' + kind, 'sig': '', 'obs': {'rewrite': idx, 'kind': kind},
                          'msg': 'der.decode(decodeOpenTypes=True) accepted the %s rewrite inside the open type payload at %s: %s' % (kind, where, e2.hex()[:120])})
        elif d.status == 'leak':
            fails.append({'sub': 'der-opentype', 'kind': 'leak:' + kind, 'sig': d.sig, 'obs': {'rewrite': idx, 'kind': kind}, 'msg': d.brief()})
    return fails


def replay(case):
    fn = run_opentype if case.get('opentype') else run_case
    return [dict(f, case=ir.to_jsonable(case), obs=ir.to_jsonable(f.get('obs'))) for f in fn(case)]


def run_shard(desc, seed, tier, col):
    def body(x):
        T, v = x
        case = {'T': T, 'v': v}
        for f in run_case(case, col):
            c2 = dict(case, only=f['obs']['rewrite'])
            col.fail(f['sub'], f['kind'], f['msg'], c2, sig=f['sig'], obs=f.get('obs'))
        if ir.depth(T) <= 2 and ir.tag_stack(T)[0]:
            for f in run_opentype(case, col):
                col.fail(f['sub'], f['kind'], f['msg'], dict(case, only=f['obs']['rewrite'], opentype=True), sig=f['sig'], obs=f.get('obs'))

    harness.run_given(gen.type_and_value(CFG), body, seed, desc['examples'], col)
    if OT_STATS['tried'] >= 20 and OT_STATS['dead'] * 2 > OT_STATS['tried']:
        # (an arm whose control fails for most inputs tests nothing: say so instead of counting exclusions)
        raise harness.HarnessError('open type arm: the canonical container was not decoded in %d of %d cases' % (OT_STATS['dead'], OT_STATS['tried']))


FINDINGS = {}
