"""C01 - BER encode/decode round trip under every encoder mode."""
import io

from pv.core import ir, gen, build, absval, lib, harness, x690
from pv.core import findings as fz

PROP = 'C01'
LEVEL = 'exploration'
DESIGN_REF = 'DESIGN.md 4/C01'
RULE = ('Hypothesis draws (T, v) from the type universe U (depth<=3, arbitrary tag stacks, boundary-biased values) and an '
        'encoder mode (defMode, maxChunkSize); oracle: absval(ber.decode(ber.encode(v, mode), asn1Spec=T)) == v with empty '
        'remainder, one-shot and through StreamingDecoder(BytesIO). A case is non-trivial when T is constructed or tagged or '
        'the mode is not (definite, unchunked); distinct = distinct (T, v, mode).')
RULE += (' ' + 'U includes constructed DEFAULTs, types sharing one base object, application subclasses with a typeId of their own, a numbers-only sub-universe (REAL in every base / exponent width), lists of 100 and more elements and the class-wide binEncBase preference as one more mode.')
ASSUMPTIONS = ['abstract content is read with non-instantiating accessors (pv/core/absval.py)',
               'REAL values are compared as exact rationals']
SHARDS = {'quick': (16, 250), 'thorough': (16, 6000)}
BUDGET = {'quick': 100, 'thorough': 1500}
MIN_NONTRIVIAL = {'quick': 500, 'thorough': 5000}


def shards(tier):
    n, per = SHARDS[tier]
    return [{'examples': per, 'i': i} for i in range(n)]


def features(T, v, mode):
    f = ['depth=%d' % ir.depth(T)]
    if ir.has_tags(T):
        f.append('tagged')
    if not mode[0]:
        f.append('indefinite')
    if mode[1]:
        f.append('chunked')
    for k in sorted(ir.kinds_in(T)):
        f.append('kind:' + k)
    return f


def run_case(case):
    """-> list of failure dicts (sub, kind, sig, msg). Deterministic; no Hypothesis."""
    pref = case.get('real_pref')
    if pref is None:
        return _run_case(case)
    # one more encoder mode: the documented class-wide preference for the base of binary REALs
    from pyasn1.type import univ as _univ
    old = _univ.Real.binEncBase
    _univ.Real.binEncBase = pref
    try:
        return _run_case(case)
    finally:
        _univ.Real.binEncBase = old


def _run_case(case):
    T, v = case['T'], case['v']
    defMode, chunk = case['mode']
    fails = []

    def F(sub, kind, msg, sig='', obs=None):
        fails.append({'sub': sub, 'kind': kind, 'sig': sig, 'msg': msg, 'obs': obs})

    sch = build.schema(T)
    obj = build.value_from(sch, T, v)
    e = lib.encode('BER', obj, defMode=defMode, maxChunkSize=chunk)
    if not e.ok:
        F('encode', 'raises', e.brief(), e.sig)
        return fails
    enc = e.value
    d = lib.decode('BER', enc, sch)
    if not d.ok:
        F('decode', 'raises', '%s | enc=%s' % (d.brief(), enc.hex()[:200]), d.sig)
    else:
        if d.rest != b'':
            F('decode', 'remainder', 'remainder %s | enc=%s' % (bytes(d.rest).hex()[:60], enc.hex()[:200]))
        ok, why = absval.equal(T, d.value, v, sch)
        if not ok:
            F('decode', 'value', '%s | enc=%s' % (why, enc.hex()[:200]), obs=_got(T, d.value, sch))
    items, final = lib.stream_all('BER', io.BytesIO(enc), sch)
    if final != 'stop':
        if d.ok:
            F('stream', 'raises', final.brief(), final.sig)
    elif len(items) != 1:
        if d.ok and d.rest == b'':
            F('stream', 'count', '%d objects from one encoding' % len(items))
    else:
        ok, why = absval.equal(T, items[0], v, sch)
        if not ok and d.ok and absval.equal(T, d.value, v, sch)[0]:
            F('stream', 'value', why, obs=_got(T, items[0], sch))
    return fails


def _got(T, obj, sch):
    try:
        return {'got': absval.absval(T, obj, sch)}
    except Exception as e:
        return {'shape': str(e)[:200]}


def annotate(case, fails):
    """Attach the case and facts used by finding predicates."""
    T = case['T']
    for f in fails:
        f['case'] = case
    return fails


def replay(case):
    fails = run_case(case)
    out = []
    for f in fails:
        f = dict(f)
        f['case'] = ir.to_jsonable(case)
        f['bucket'] = '%s|%s|%s' % (f['sub'], f['kind'], f['sig'])
        out.append(f)
    return out


def run_shard(desc, seed, tier, col):
    from hypothesis import strategies as st
    strat = st.tuples(gen.type_and_value(CFG), gen.ber_modes(), st.sampled_from([None, None, 8, 16]))

    def body(x):
        (T, v), mode, pref = x
        case = {'T': T, 'v': v, 'mode': list(mode)}
        if pref is not None and 'REAL' in ir.kinds_in(T):
            case['real_pref'] = pref
        nontriv = ir.depth(T) >= 1 or ir.has_tags(T) or tuple(mode) != (True, 0)
        col.case({'T': T, 'v': v, 'm': list(mode)}, nontriv, features(T, v, mode),
                 sample={'type': ir.show_type(T), 'value': absval.short(v, 200), 'defMode': mode[0], 'maxChunkSize': mode[1]})
        col.begin(case)
        for f in run_case(case):
            col.fail(f['sub'], f['kind'], f['msg'], case, sig=f['sig'], obs=f.get('obs'))

    harness.run_given(strat, body, seed, desc['examples'], col)


CFG = {}


# ---------------------------------------------------------------- known findings (defect models)

def _only_known(case, exclude):
    """Every failure of `case` is explained by a finding not in `exclude`."""
    for f in run_case(case):
        f = dict(f, case=ir.to_jsonable(case), obs=ir.to_jsonable(f.get('obs')))
        if not any(pred(f) for fid, pred in FINDINGS.items() if fid not in exclude):
            return False
    return True


MODE_FINDINGS = ('F01-stray-eoo',)


def _passes_definite(case):
    c = dict(case)
    c['mode'] = [True, case['mode'][1]]
    return _only_known(c, MODE_FINDINGS)


def _f_eoo(failure):
    """Stray 00 00 after an EXPLICIT tag over a primitive whose encoder has no indefinite mode."""
    case = fz.case_of(failure)
    if case['mode'][0] or failure['sub'] not in ('decode', 'stream'):
        return False
    if not fz.explicit_over_nonindef_prim(case['T'], case['v']):
        return False
    return _passes_definite(case)


def _f_any_indef(failure):
    """Tagged ANY in indefinite-length form: decoder returns bare bytes / loses content."""
    case = fz.case_of(failure)
    if case['mode'][0] or failure['sub'] not in ('decode', 'stream'):
        return False
    if not fz.tagged_any_present(case['T'], case['v']):
        return False
    return _passes_definite(case)






FINDINGS = {'F01-stray-eoo': _f_eoo}
