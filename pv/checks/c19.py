"""C19 - container objects refine their Python prototypes under any operation history."""
import operator

from pyasn1 import error
from pyasn1.type import univ, char, useful, namedtype, tag as ptag, base as _base

from pv.core import ir, lib, harness, x690, build

PROP = 'C19'
LEVEL = 'exploration'
DESIGN_REF = 'DESIGN.md 4/C19 and Appendix A'
RULE = ('Hypothesis rule-based state machines drive (1) SEQUENCE OF / SET OF objects with and without component type against a '
        'Python list, (2) SEQUENCE / SET objects with declared components against a dict, (3) CHOICE objects against an at-most-'
        'one-entry dict, with mutators (append, extend, item / slice / positional / named / typed assignment, setComponents, '
        'sort, reverse, clear, reset, clone and continue on the clone, re-selection of a CHOICE alternative incl. through the '
        'instantiating accessor) freely interleaved with readers (len, iter, in, indexing, slices, count, index, keys / values / '
        'items, getComponentBy* with instantiate False / True, prettyPrint, ==, encoding) and ill-formed operations (unknown name, '
        'position out of range, value of the wrong type). After EVERY step: length, iteration order, membership, isValue, '
        'abstract content and the DER encoding (or its refusal while the value is incomplete) equal those of the model; readers '
        'change nothing; ill-formed operations raise a lookup / library error and change nothing; a CHOICE never holds two '
        'alternatives. (4) Enumeration: every arithmetic / conversion / comparison operator of every simple type applied to a '
        'valueless schema object raises PyAsn1Error. (5) SEQUENCE / SET without declared components, filled by position and value-'
        'cloned, against a dict over field-0, field-1, ... (len, keys, values, items, iteration, in, reads, DER). (6) Assignment and '
        'reading by tag with innerFlag=True through CHOICEs nested three deep, against a dict. Non-trivial = a mutator after clear / reset / clone, or a reader between two '
        'mutators; distinct = distinct histories.')
RULE += (' ' + 'Also: placeholders left pending, clone through subtype(cloneValueFlag=), deep clones of containers holding empty containers, occupants of a subtype overwritten, comparison with other containers, free-form records of a dozen members. Also: names spelled by instances of a str subclass.')
ASSUMPTIONS = ['model decisions are those of DESIGN.md Appendix A (documented auto-instantiating accessors are modelled as such)']
SHARDS = {'quick': {'of': (6, 120), 'record': (5, 120), 'choice': (4, 120), 'dynrec': (1, 600)},
          'thorough': {'of': (6, 2500), 'record': (5, 2500), 'choice': (4, 2500), 'dynrec': (1, 20000)}}
BUDGET = {'quick': 100, 'thorough': 1500}
MIN_NONTRIVIAL = {'quick': 300, 'thorough': 3000}
TECHNIQUE = 'model-based stateful testing (Hypothesis RuleBasedStateMachine) against list / dict models + enumeration of scalar operators'
STEPS = {'quick': 25, 'thorough': 50}
LOOKUP = (error.PyAsn1Error, IndexError, KeyError)

INT = {'k': 'INTEGER', 'tags': []}


def shards(tier):
    out = [{'mode': 'scalars'}]
    for m, (n, per) in SHARDS[tier].items():
        out += [{'mode': m, 'examples': per} for _ in range(n)]
    return out


def fail(sub, kind, msg, hist, sig=''):
    return {'sub': sub, 'kind': kind, 'sig': sig, 'msg': '%s | history (last 8 of %d): %s' % (msg, len(hist['ops']), hist['ops'][-8:]), 'obs': None,
            'case': hist}


# =================================================================== (1) SEQUENCE OF / SET OF vs list

from pyasn1.type import constraint as _constraint
SMALL_INT = univ.Integer().subtype(subtypeSpec=_constraint.ValueRangeConstraint(-5, 5))


class _Name(str):
    """A str subclass instance equal to (and hashing like) the plain name."""


class OfRun(object):
    """Interprets one history on a real object and on the list model."""
    def __init__(self, setup):
        self.setup = setup
        cls = univ.SequenceOf if setup['kind'] == 'SEQUENCEOF' else univ.SetOf
        self.o = cls(componentType=univ.Integer()) if setup['typed'] else cls()
        self.m = None            # None = schema; else list of ints
        self.pending = False     # a placeholder element (handed out by the instantiating accessor, not yet a value) sits at the end
        self.nested = bool(setup.get('nested'))
        if self.nested:
            inner = univ.SequenceOf(componentType=univ.Integer())
            self.o = cls(componentType=inner) if setup['typed'] else cls()
            self.T = {'k': setup['kind'], 'tags': [], 'of': {'k': 'SEQUENCEOF', 'tags': [], 'of': INT}}
            self.hist = {'machine': 'of', 'setup': setup, 'ops': []}
            return
        self.T = {'k': setup['kind'], 'tags': [], 'of': INT}
        self.hist = {'machine': 'of', 'setup': setup, 'ops': []}

    def elem(self, x):
        if self.nested:
            e = univ.SequenceOf(componentType=univ.Integer())
            e.clear()
            e.append(x)
            return e
        return x if self.setup['typed'] and self.setup.get('raw', True) else univ.Integer(x)

    def unelem(self, e):
        if self.nested:
            if len(e) != 1:
                raise ValueError('nested element of length %d' % len(e))
            return int(e[0])
        return int(e)

    def ref_value(self):
        return [[x] for x in self.m] if self.nested else self.m

    def snapshot(self):
        o = self.o
        try:
            isv = o.isValue
        except Exception as e:
            isv = 'raises:%s' % type(e).__name__
        try:
            items = [self.unelem(o.getComponentByPosition(i, instantiate=False)) for i in range(len(o))] if isv is True else None
        except Exception as e:
            items = 'raises:%s' % type(e).__name__
        e = lib.encode('DER', o)
        return (isv, items, e.value if e.ok else e.status)

    def check(self, what):
        """Compare the object with the model. -> failure or None"""
        o, m = self.o, self.m
        try:
            isv = o.isValue
        except Exception as ex:
            return fail('of', 'isValue-raises', 'isValue raised %s after %s' % (harness.exc_sig(ex), what), self.hist, harness.exc_sig(ex))
        if self.pending:
            # an element that is still a placeholder: the container is not a value and must not encode
            if isv:
                return fail('of', 'isValue', 'object whose last element is a placeholder reports isValue True after %s' % what, self.hist)
            e = lib.encode('DER', o)
            if e.ok or e.status == 'leak':
                return fail('of', 'placeholder-encodes', 'container with a placeholder element: encode gives %s after %s' % (
                    e.brief() if not e.ok else e.value.hex(), what), self.hist, e.sig)
            return None
        if m is None:
            if isv:
                return fail('of', 'isValue', 'schema object reports isValue after %s' % what, self.hist)
            e = lib.encode('DER', o)
            if e.ok or e.status == 'leak':
                return fail('of', 'schema-encodes', 'valueless object: encode gives %s after %s' % (e.brief() if not e.ok else e.value.hex(), what), self.hist, e.sig)
            return None
        if not isv:
            return fail('of', 'isValue', 'model is the value %s, object reports isValue False after %s' % (m, what), self.hist)
        try:
            n = len(o)
            items = [self.unelem(x) for x in o]
        except Exception as ex:
            return fail('of', 'iteration-raises', 'len / iteration raised %s after %s' % (harness.exc_sig(ex), what), self.hist, harness.exc_sig(ex))
        if n != len(m) or items != m:
            return fail('of', 'content', 'object holds %s (len %d), model %s after %s' % (items, n, m, what), self.hist)
        e = lib.encode('DER', o)
        if not e.ok:
            return fail('of', 'encode-raises', 'complete value does not encode: %s after %s' % (e.brief(), what), self.hist, e.sig)
        ref = x690.der(self.T, self.ref_value())
        if e.value != ref:
            return fail('of', 'encoding', 'DER %s, model %s after %s' % (e.value.hex()[:60], ref.hex()[:60], what), self.hist)
        return None

    def step(self, op):
        """Execute one op on object and model. -> failure or None"""
        if self.nested and op[0] in ('sort', 'read', 'bad', 'setslice'):
            return None             # the nested variant exercises structure sharing only
        if op[0] in ('touch', 'fill') and not (self.nested and self.setup['typed'] and self.m is not None):
            return None
        if self.pending != (op[0] == 'fill'):
            return None             # while a placeholder is pending the only step is to complete it
        self.hist['ops'].append(op)
        name = op[0]
        o = self.o
        m = self.m
        try:
            if name == 'touch':
                o.getComponentByPosition(len(m))            # documented: instantiates the element in place
                self.pending = True
            elif name == 'fill':
                o.getComponentByPosition(len(m), instantiate=False).append(op[1])
                self.m = m + [op[1]]
                self.pending = False
            elif name == 'append-sub':
                # a value object of a constrained SUBTYPE of the component type is a legal member; what later overwrites it
                # is judged by the container's component type, not by the occupant it replaces
                if self.nested or not self.setup['typed'] or abs(op[1]) > 5:
                    self.hist['ops'].pop()
                    return None
                o.append(SMALL_INT.clone(op[1]))
                self.m = (m or []) + [op[1]]
            elif name == 'append':
                o.append(self.elem(op[1]))
                self.m = (m or []) + [op[1]]
            elif name == 'extend':
                o.extend([self.elem(x) for x in op[1]])
                self.m = (m or []) + list(op[1])
            elif name == 'setitem':
                i, x = op[1], op[2]
                n = len(m or [])
                if i < -n or i > n:
                    return self.illformed(lambda: operator.setitem(o, i, self.elem(x)), 'setitem(%d)' % i)
                operator.setitem(o, i, self.elem(x))
                mm = list(m or [])
                if i == n:
                    mm.append(x)
                else:
                    mm[i] = x
                self.m = mm
            elif name == 'setpos':
                i, x = op[1], op[2]
                n = len(m or [])
                if i > n:
                    i = n
                o.setComponentByPosition(i, self.elem(x))
                mm = list(m or [])
                if i == n:
                    mm.append(x)
                else:
                    mm[i] = x
                self.m = mm
            elif name == 'setslice':
                a, xs = op[1], op[2]
                n = len(m or [])
                a = min(a, n)
                b = min(a + len(xs), n) if a + len(xs) <= n else n
                # same-length replacement inside, or a non-empty slice at the tail (positional overwrite == list semantics);
                # other shapes (incl. the empty slice obj[n:n]) are not generated - see DESIGN.md Appendix A
                if a >= n:
                    self.hist['ops'].pop()
                    return None
                if a + len(xs) <= n:
                    o[a:a + len(xs)] = [self.elem(x) for x in xs]
                    mm = list(m or [])
                    mm[a:a + len(xs)] = xs
                else:
                    o[a:n] = [self.elem(x) for x in xs]
                    mm = list(m or [])
                    mm[a:n] = xs
                if xs or m is not None:
                    self.m = mm if (xs or m is not None) else m
            elif name == 'sort':
                if m is None:
                    return None
                # key 2 and 3 are not injective: members that tie keep their relative order (list.sort is stable, also when reversed)
                kf = {1: lambda z: -z, 2: lambda z: z % 3, 3: lambda z: abs(z) // 2}.get(int(op[2]))
                o.sort(reverse=op[1]) if kf is None else o.sort(key=lambda z: kf(int(z)), reverse=op[1])
                self.m = sorted(m, reverse=op[1]) if kf is None else sorted(m, key=kf, reverse=op[1])
            elif name == 'reverse':
                if m is None:
                    return None
                o.reverse()
                self.m = list(reversed(m))
            elif name == 'clear':
                o.clear()
                self.m = []
            elif name == 'reset':
                o.reset()
                self.m = None
            elif name == 'clone':
                before = self.snapshot()
                # (op[2]: through subtype() without new tags or constraints, which takes the same cloneValueFlag)
                c = o.subtype(cloneValueFlag=op[1]) if len(op) > 2 and op[2] else o.clone(cloneValueFlag=op[1])
                if self.snapshot() != before:
                    return fail('of', 'clone-changes-original', 'clone() changed the original', self.hist)
                if not op[1] and c.isValue:
                    return fail('of', 'clone-keeps-values', 'clone / subtype without cloneValueFlag is a value', self.hist)
                if op[1] and m is not None:
                    # deep copy: mutate the clone, the original must not follow
                    c.append(self.elem(424242) if self.nested else univ.Integer(424242))
                    if self.nested and m:
                        c[0].append(univ.Integer(77))
                    if self.snapshot() != before:
                        return fail('of', 'clone-shares-state', 'mutating the clone changed the original', self.hist)
                    c = o.clone(cloneValueFlag=True)
                    if self.snapshot() != before or lib.encode('DER', c).value != before[2]:
                        return fail('of', 'clone-content', 'a deep clone does not encode like the original', self.hist)
                    if self.nested and self.setup['typed']:
                        # members that are EMPTY containers when the copy is taken (an empty list value, a record of which no
                        # member is set) are copied like any other: like copy.deepcopy of [[], [1], ...]
                        o2 = o.clone(cloneValueFlag=True)
                        e0 = univ.SequenceOf(componentType=univ.Integer())
                        e0.clear()
                        o2.setComponentByPosition(0, e0)
                        d0 = lib.encode('DER', o2).value
                        c2 = o2.clone(cloneValueFlag=True)
                        c2[0].append(univ.Integer(7))
                        if len(o2[0]) != 0 or lib.encode('DER', o2).value != d0:
                            return fail('of', 'clone-shares-state', 'appending to an (empty) member of the deep clone changed the original', self.hist, 'empty-member')
                        if len(c2[0]) != 1:
                            return fail('of', 'clone-content', 'the member of the deep clone did not take the element', self.hist, 'empty-member')
                self.o = c
                self.m = list(m) if (op[1] and m is not None) else None
            elif name == 'read':
                return self.read(op[1], op[2] if len(op) > 2 else 0)
            elif name == 'bad':
                return self.bad(op[1])
            else:
                raise ValueError(name)
        except LOOKUP + (AttributeError, TypeError, RuntimeError, ValueError) as ex:
            return fail('of', 'mutator-raises', 'well-formed %s raised %s: %s' % (name, harness.exc_sig(ex), str(ex)[:80]), self.hist, '%s:%s' % (name, harness.exc_sig(ex)))
        return self.check(name)

    def illformed(self, fn, what):
        before = self.snapshot()
        try:
            fn()
        except LOOKUP:
            pass
        except Exception as ex:
            return fail('of', 'illformed-leak', 'ill-formed %s raised %s instead of a lookup / library error' % (what, harness.exc_sig(ex)), self.hist, harness.exc_sig(ex))
        else:
            return fail('of', 'illformed-accepted', 'ill-formed %s was accepted' % what, self.hist)
        if self.snapshot() != before:
            return fail('of', 'illformed-changes', 'rejected %s changed the object' % what, self.hist)
        return None

    def bad(self, which):
        o = self.o
        n = len(self.m or [])
        if which == 0:
            return self.illformed(lambda: operator.setitem(o, -(n + 1), univ.Integer(1)), 'setitem(%d)' % -(n + 1))
        if which == 1:
            return self.illformed(lambda: o.append(univ.OctetString(b'x')), 'append(OctetString)') if self.setup['typed'] else None
        if which == 2:
            if self.setup['typed']:
                return None
            return self.illformed(lambda: o.append(17), 'append(plain int without component type)') if not self.m else None
        return self.illformed(lambda: o.setComponentByPosition(-(n + 2), univ.Integer(1)), 'setComponentByPosition(%d)' % -(n + 2))

    def read(self, which, arg):
        o, m = self.o, self.m
        before = self.snapshot()
        try:
            if m is None:
                # a valueless object: readers may behave as on [] or raise the library's error
                try:
                    [len, lambda z: list(iter(z)), lambda z: 5 in z, lambda z: z.prettyPrint(), lambda z: z == z.clone()][which % 5](o)
                except error.PyAsn1Error:
                    pass
            else:
                n = len(m)
                if which == 0:
                    if len(o) != n:
                        return fail('of', 'read-len', 'len %d, model %d' % (len(o), n), self.hist)
                elif which == 1:
                    if [int(x) for x in iter(o)] != m:
                        return fail('of', 'read-iter', 'iteration differs from the model', self.hist)
                elif which == 2:
                    x = m[arg % n] if n and arg % 2 else 999999
                    if (univ.Integer(x) in o) != (x in m):
                        return fail('of', 'read-in', '%d in obj gives %s, model %s' % (x, univ.Integer(x) in o, x in m), self.hist)
                elif which == 3 and n:
                    i = arg % (2 * n) - n
                    if int(o[i]) != m[i]:
                        return fail('of', 'read-getitem', 'obj[%d] = %s, model %s' % (i, int(o[i]), m[i]), self.hist)
                elif which == 4:
                    a, b = sorted((arg % (n + 1), (arg * 7) % (n + 1)))
                    got = [int(x) for x in o[a:b]]
                    if got != m[a:b]:
                        return fail('of', 'read-slice', 'obj[%d:%d] = %s, model %s' % (a, b, got, m[a:b]), self.hist)
                elif which == 5 and n:
                    x = m[arg % n]
                    if o.count(univ.Integer(x)) != m.count(x):
                        return fail('of', 'read-count', 'count(%d) = %s, model %s' % (x, o.count(univ.Integer(x)), m.count(x)), self.hist)
                elif which == 6 and n:
                    x = m[arg % n]
                    if o.index(univ.Integer(x)) != m.index(x):
                        return fail('of', 'read-index', 'index(%d) = %s, model %s' % (x, o.index(univ.Integer(x)), m.index(x)), self.hist)
                elif which == 10 and n:
                    # index() with a window, as list.index: first position in [a, b), ValueError when there is none
                    x = m[arg % n]
                    a, b = sorted(((arg * 3) % (n + 1), (arg * 5) % (n + 1)))
                    try:
                        want = m.index(x, a, b)
                    except ValueError:
                        want = 'ValueError'
                    try:
                        got = o.index(univ.Integer(x), a, b)
                    except ValueError:
                        got = 'ValueError'
                    if got != want:
                        return fail('of', 'read-index-window', 'index(%d, %d, %d) = %s, model %s' % (x, a, b, got, want), self.hist)
                elif which == 7 and n:
                    i = arg % n
                    got = o.getComponentByPosition(i, instantiate=False)
                    if int(got) != m[i]:
                        return fail('of', 'read-getpos', 'getComponentByPosition(%d) = %s, model %s' % (i, got, m[i]), self.hist)
                elif which == 8:
                    o.prettyPrint()
                    str(o)
                    repr(o)
                elif which == 9:
                    if not (o == o.clone(cloneValueFlag=True)) or (o != o.clone(cloneValueFlag=True)):
                        return fail('of', 'read-eq', 'object differs from its own deep clone', self.hist)
                    # ... and, like a list, from a container that holds something else
                    other = o.clone(cloneValueFlag=True)
                    other.append(univ.Integer(424242))
                    if (o == other) or not (o != other):
                        return fail('of', 'read-eq', 'object compares equal to a container with one more element', self.hist)
                    if n:
                        other = o.clone(cloneValueFlag=True)
                        other[0] = univ.Integer(int(m[0]) + 1)
                        if (o == other) or not (o != other):
                            return fail('of', 'read-eq', 'object compares equal to a container with another first element', self.hist)
                    if (o == m) is False or (o != m) is True:
                        return fail('of', 'read-eq', 'object differs from the list of its own elements', self.hist)
        except Exception as ex:
            return fail('of', 'reader-raises', 'reader %d raised %s: %s' % (which, harness.exc_sig(ex), str(ex)[:80]), self.hist, 'read%d:%s' % (which, harness.exc_sig(ex)))
        if self.snapshot() != before:
            return fail('of', 'reader-changes', 'reader %d changed the object' % which, self.hist)
        return None


# =================================================================== (2) SEQUENCE / SET vs dict

REC_NAMES = ['a', 'b', 'c', 'd', 'e', 'f']
PQ = {'k': 'SEQUENCE', 'tags': [['I', 'C', 1]], 'comps': [{'name': 'p', 't': INT, 'p': 'req'}, {'name': 'q', 't': INT, 'p': 'req'}]}
REC_T = None


def rec_types(kind):
    comps = [ir.comp('a', INT), ir.comp('b', {'k': 'OCTETSTRING', 'tags': []}, 'opt'),
             ir.comp('c', {'k': 'BOOLEAN', 'tags': []}, 'def', False),
             ir.comp('d', {'k': 'SEQUENCEOF', 'tags': [], 'of': INT}, 'opt'),
             ir.comp('e', {'k': 'INTEGER', 'tags': [['I', 'C', 0]]}, 'opt'), ir.comp('f', PQ, 'opt')]
    return {'k': kind, 'tags': [], 'comps': comps}


def rec_schema(kind):
    cls = univ.Sequence if kind == 'SEQUENCE' else univ.Set
    return cls(componentType=namedtype.NamedTypes(
        namedtype.NamedType('a', univ.Integer()),
        namedtype.OptionalNamedType('b', univ.OctetString()),
        namedtype.DefaultedNamedType('c', univ.Boolean(False)),
        namedtype.OptionalNamedType('d', univ.SequenceOf(componentType=univ.Integer())),
        namedtype.OptionalNamedType('e', univ.Integer().subtype(implicitTag=ptag.Tag(ptag.tagClassContext, ptag.tagFormatSimple, 0))),
        namedtype.OptionalNamedType('f', univ.Sequence(componentType=namedtype.NamedTypes(
            namedtype.NamedType('p', univ.Integer()), namedtype.NamedType('q', univ.Integer()))).subtype(
            implicitTag=ptag.Tag(ptag.tagClassContext, ptag.tagFormatConstructed, 1)))))


def rec_value(name, x):
    """Python-side value for component `name` from the drawn integer x."""
    if name == 'a' or name == 'e':
        return x
    if name == 'b':
        return bytes([x % 256]) * (x % 3)
    if name == 'c':
        return bool(x % 2)
    if name == 'f':
        return {'p': x, 'q': x + 1}
    return [x % 5, x % 7][:x % 2 + 1]      # never empty: an empty OPTIONAL SEQUENCE OF member is known finding F05


class RecRun(object):
    def __init__(self, setup):
        self.setup = setup
        self.kind = setup['kind']
        self.o = rec_schema(self.kind)
        self.T = rec_types(self.kind)
        self.m = None           # None = schema (never filled / after reset); else dict name -> value (present components)
        self.touched = set()    # names instantiated by documented auto-instantiating readers (placeholders)
        self.hist = {'machine': 'record', 'setup': setup, 'ops': []}

    def obj_value(self, name, v):
        if name == 'd':
            so = univ.SequenceOf(componentType=univ.Integer())
            so.clear()
            so.extend(v)
            return so
        if name == 'e':
            return self.o.componentType['e'].asn1Object.clone(v)
        if name == 'f':
            f = self.o.componentType['f'].asn1Object.clone()
            f['p'] = v['p']
            f['q'] = v['q']
            return f
        return v

    def content(self):
        """Abstract content of the object read without instantiating anything."""
        o = self.o
        out = {}
        for i, nm in enumerate(REC_NAMES):
            c = o.getComponentByPosition(i, default=None, instantiate=False)
            if c is None or c is _base.noValue:
                continue
            if nm == 'd':
                out[nm] = [int(x) for x in c]
            elif nm == 'b':
                out[nm] = bytes(c.asOctets())
            elif nm == 'c':
                out[nm] = bool(c)
            elif nm == 'f':
                out[nm] = {'p': int(c['p']), 'q': int(c['q'])}
            else:
                out[nm] = int(c)
        return out

    def snapshot(self):
        o = self.o
        try:
            isv = o.isValue
        except Exception as e:
            isv = 'raises:%s' % type(e).__name__
        try:
            cont = self.content() if o._componentValues is not _base.noValue else None
        except Exception as e:
            cont = 'raises:%s' % type(e).__name__
        e = lib.encode('DER', o)
        return (isv, ir.jdump(cont), e.value if e.ok else e.status)

    def model_content(self):
        m = dict(self.m or {})
        return m

    def check(self, what):
        o, m = self.o, self.m
        try:
            isv = o.isValue
        except Exception as ex:
            return fail('record', 'isValue-raises', 'isValue raised %s after %s' % (harness.exc_sig(ex), what), self.hist, harness.exc_sig(ex))
        want_value = m is not None and 'a' in m
        if bool(isv) != want_value:
            return fail('record', 'isValue', 'isValue %s, model says %s (model %s) after %s' % (isv, want_value, m, what), self.hist)
        if m is not None:
            try:
                got = self.content()
            except Exception as ex:
                return fail('record', 'content-raises', 'reading components raised %s after %s' % (harness.exc_sig(ex), what), self.hist, harness.exc_sig(ex))
            exp = dict(m)
            # DEFAULT c: an unset or placeholder default reads as its default value or as absent
            g2 = dict(got)
            if 'c' not in exp and g2.get('c') is False:
                g2.pop('c')
            if g2 != exp:
                return fail('record', 'content', 'object holds %s, model %s after %s' % (got, exp, what), self.hist)
        e = lib.encode('DER', o)
        if want_value:
            if not e.ok:
                return fail('record', 'encode-raises', 'complete value does not encode: %s after %s' % (e.brief(), what), self.hist, e.sig)
            ref = x690.der(self.T, m)
            if e.value != ref:
                return fail('record', 'encoding', 'DER %s, model %s after %s' % (e.value.hex()[:60], ref.hex()[:60], what), self.hist)
        else:
            if e.ok or e.status == 'leak':
                return fail('record', 'incomplete-encodes', 'incomplete value: encode gives %s after %s' % (e.value.hex() if e.ok else e.brief(), what), self.hist, e.sig)
        return None

    def assign(self, how, name, v):
        o = self.o
        idx = REC_NAMES.index(name)
        val = self.obj_value(name, v)
        if isinstance(v, int) and v % 2:
            # a name is a name whatever str subclass spells it (enum members with a str mixin, strings tagged by a loader):
            # a dict takes it as the same key
            name = _Name(name)
        if how == 0:
            o.setComponentByName(name, val)
        elif how == 1:
            o.setComponentByPosition(idx, val)
        elif how == 2:
            o[name] = val
        elif how == 3:
            o[idx] = val
        elif how == 4:
            o.setComponents(**{name: val})
        else:
            if self.kind == 'SET':
                tagset = o.componentType[idx].asn1Object.tagSet
                o.setComponentByType(tagset, val)
            else:
                o.setComponentByName(name, val)

    def step(self, op):
        self.hist['ops'].append(op)
        name = op[0]
        o = self.o
        try:
            if name == 'set':
                how, nm, x = op[1], op[2], op[3]
                v = rec_value(nm, x)
                self.assign(how, nm, v)
                self.m = dict(self.m or {})
                self.m[nm] = v
                if nm == 'f':
                    self.partial = dict(v)
            elif name == 'setf':
                # fill the nested record through the documented instantiate-and-return accessor, one field at a time
                fld, x = op[1], op[2]
                o['f'][fld] = x
                self.partial = dict(getattr(self, 'partial', None) or {})
                if self.m is not None and 'f' in self.m:
                    self.partial = dict(self.m['f'])
                self.partial[fld] = x
                self.m = dict(self.m or {})
                if len(self.partial) == 2:
                    self.m['f'] = dict(self.partial)
                else:
                    self.m.pop('f', None)
            elif name == 'clear':
                o.clear()
                self.m = {}
                self.partial = None
            elif name == 'reset':
                o.reset()
                self.m = None
                self.partial = None
            elif name == 'clone':
                before = self.snapshot()
                c = o.clone(cloneValueFlag=op[1])
                self.partial = None if not op[1] else getattr(self, 'partial', None)
                if self.snapshot() != before:
                    return fail('record', 'clone-changes-original', 'clone() changed the original', self.hist)
                if op[1] and self.m is not None:
                    c.setComponentByName('a', 987654)
                    if 'd' in self.m:
                        c['d'].append(univ.Integer(5))
                    if self.snapshot() != before:
                        return fail('record', 'clone-shares-state', 'mutating the clone changed the original', self.hist)
                    c = o.clone(cloneValueFlag=True)
                self.o = c
                self.m = dict(self.m) if (op[1] and self.m is not None) else None
            elif name == 'read':
                return self.read(op[1], op[2])
            elif name == 'bad':
                return self.bad(op[1])
            else:
                raise ValueError(name)
        except LOOKUP + (AttributeError, TypeError, RuntimeError, ValueError) as ex:
            return fail('record', 'mutator-raises', 'well-formed %s raised %s: %s' % (op[:3], harness.exc_sig(ex), str(ex)[:80]), self.hist,
                        '%s:%s' % (name, harness.exc_sig(ex)))
        return self.check(name)

    def bad(self, which):
        o = self.o
        acts = [(lambda: o.setComponentByName('nope', 1), "setComponentByName('nope')"),
                (lambda: operator.setitem(o, 'zzz', 1), "obj['zzz'] = 1"),
                (lambda: o.setComponentByPosition(len(REC_NAMES), univ.Integer(1)), 'setComponentByPosition(%d)' % len(REC_NAMES)),
                (lambda: o.getComponentByName('nope'), "getComponentByName('nope')"),
                (lambda: o['nope'], "obj['nope']"),
                (lambda: o.setComponentByName('a', univ.OctetString(b'x')), "setComponentByName('a', OctetString)"),
                (lambda: o.getComponentByPosition(len(REC_NAMES) + 3), 'getComponentByPosition(%d)' % (len(REC_NAMES) + 3))]
        fn, what = acts[which % len(acts)]
        before = self.snapshot()
        try:
            fn()
        except LOOKUP:
            pass
        except Exception as ex:
            return fail('record', 'illformed-leak', 'ill-formed %s raised %s instead of a lookup / library error' % (what, harness.exc_sig(ex)), self.hist, harness.exc_sig(ex))
        else:
            return fail('record', 'illformed-accepted', 'ill-formed %s was accepted' % what, self.hist)
        if self.snapshot() != before:
            return fail('record', 'illformed-changes', 'rejected %s changed the object' % what, self.hist)
        return None

    def read(self, which, arg):
        o, m = self.o, self.m
        before = self.snapshot()
        nm = REC_NAMES[arg % len(REC_NAMES)]
        idx = REC_NAMES.index(nm)
        pure = True
        try:
            if which == 0:
                if list(o.keys()) != REC_NAMES or list(iter(o)) != REC_NAMES:
                    return fail('record', 'read-keys', 'keys() / iteration do not list the declared names', self.hist)
            elif which == 1:
                if (nm in o) is not True or ('nope' in o):
                    return fail('record', 'read-in', 'membership test differs from the declared names', self.hist)
            elif which == 2:
                got = o.getComponentByName(nm, default=None, instantiate=False)
                if m is not None and nm in m:
                    if got is None:
                        return fail('record', 'read-getname', 'component %s is set in the model, accessor returns the default' % nm, self.hist)
                elif got is not None and not (nm == 'c' and bool(got) is False):
                    return fail('record', 'read-getname', 'component %s is unset in the model, accessor returns %r' % (nm, got), self.hist)
            elif which == 3:
                got = o.getComponentByPosition(idx, default=None, instantiate=False)
                if (m is not None and nm in m) != (got is not None) and not (nm == 'c' and got is not None and bool(got) is False):
                    return fail('record', 'read-getpos', 'getComponentByPosition(%d, instantiate=False) disagrees with the model' % idx, self.hist)
            elif which == 4:
                # documented "instantiate and return": existing members are returned unchanged; unset ones get a placeholder
                if m is not None and nm in m:
                    o.getComponentByName(nm)
                    o[nm]
                    o[idx]
                else:
                    pure = False
                    o.getComponentByName(nm)
            elif which == 5:
                pure = False                  # values()/items() instantiate placeholders for unset members (documented)
                list(o.values())
                list(o.items())
            elif which == 6:
                try:
                    o.prettyPrint()
                    repr(o)
                    o.prettyPrintType()
                except error.PyAsn1Error:
                    if m is not None:
                        raise           # printing a value must work; a valueless object may refuse
            elif which == 7:
                if m is not None and 'a' in m:
                    c = o.clone(cloneValueFlag=True)
                    try:
                        if not (o == c) or (o != c):
                            return fail('record', 'read-eq', 'object differs from its own deep clone', self.hist)
                    except error.PyAsn1Error:
                        pass        # comparison may refuse when placeholders are around; it must only not change anything
            elif which == 8:
                n = len(o)
                if m is not None and m and n != len(REC_NAMES):
                    return fail('record', 'read-len', 'len %d with components assigned, %d declared' % (n, len(REC_NAMES)), self.hist)
        except Exception as ex:
            return fail('record', 'reader-raises', 'reader %d(%s) raised %s: %s' % (which, nm, harness.exc_sig(ex), str(ex)[:80]), self.hist,
                        'read%d:%s' % (which, harness.exc_sig(ex)))
        after = self.snapshot()
        if pure and after != before:
            return fail('record', 'reader-changes', 'reader %d(%s) changed the object' % (which, nm), self.hist)
        if not pure:
            # instantiating a placeholder leaves content, isValue and encoding alone - except that the object
            # becomes "initialised" (an empty value instead of a schema) the first time
            if self.m is None:
                self.m = None if after[0] is False and after[1] == 'null' else ({} if after[1] != 'null' else None)
            return self.check('instantiating reader %d(%s)' % (which, nm))
        return None


# =================================================================== (3) CHOICE vs at-most-one-entry dict

CH_NAMES = ['x', 'y', 'z']


def ch_schema():
    return univ.Choice(componentType=namedtype.NamedTypes(
        namedtype.NamedType('x', univ.Integer()), namedtype.NamedType('y', univ.OctetString()),
        namedtype.NamedType('z', univ.SequenceOf(componentType=univ.Integer()))))


CH_T = {'k': 'CHOICE', 'tags': [], 'alts': [{'name': 'x', 't': INT}, {'name': 'y', 't': {'k': 'OCTETSTRING', 'tags': []}},
                                               {'name': 'z', 't': {'k': 'SEQUENCEOF', 'tags': [], 'of': INT}}]}


class ChRun(object):
    def __init__(self, setup):
        self.setup = setup
        self.o = ch_schema()
        self.m = None              # None or (name, value); value None = selected but still a placeholder
        self.hist = {'machine': 'choice', 'setup': setup, 'ops': []}

    def value(self, nm, x):
        if nm == 'x':
            return x
        if nm == 'y':
            return bytes([x % 256]) * (x % 3 + 1)
        return [x % 5] * (x % 3)

    def snapshot(self):
        o = self.o
        try:
            isv = o.isValue
        except Exception as e:
            isv = 'raises:%s' % type(e).__name__
        try:
            nm = o.getName() if o._currentIdx is not None else None
        except Exception as e:
            nm = 'raises:%s' % type(e).__name__
        e = lib.encode('DER', o)
        return (isv, nm, e.value if e.ok else e.status)

    def check(self, what):
        o, m = self.o, self.m
        try:
            n = len(o)
            keys = list(o.keys())
        except error.PyAsn1Error:
            n, keys = None, None
        except Exception as ex:
            return fail('choice', 'len-raises', 'len()/keys() raised %s after %s' % (harness.exc_sig(ex), what), self.hist, harness.exc_sig(ex))
        if n is not None and (n > 1 or len(keys) > 1):
            return fail('choice', 'two-alternatives', 'CHOICE reports %d alternatives (%s) after %s' % (n, keys, what), self.hist)
        try:
            isv = o.isValue
        except Exception as ex:
            return fail('choice', 'isValue-raises', 'isValue raised %s after %s' % (harness.exc_sig(ex), what), self.hist, harness.exc_sig(ex))
        complete = m is not None and m[1] is not None
        if bool(isv) != complete:
            return fail('choice', 'isValue', 'isValue %s, model %s after %s' % (isv, m, what), self.hist)
        e = lib.encode('DER', o)
        if complete:
            if n != 1 or keys != [m[0]]:
                return fail('choice', 'content', 'len %s keys %s, model selects %s after %s' % (n, keys, m[0], what), self.hist)
            try:
                if o.getName() != m[0]:
                    return fail('choice', 'content', 'getName() %s, model %s after %s' % (o.getName(), m[0], what), self.hist)
                comp = o.getComponent()
                got = int(comp) if m[0] == 'x' else (bytes(comp.asOctets()) if m[0] == 'y' else [int(z) for z in comp])
            except Exception as ex:
                return fail('choice', 'content-raises', 'reading the selected alternative raised %s after %s' % (harness.exc_sig(ex), what), self.hist, harness.exc_sig(ex))
            if got != m[1]:
                return fail('choice', 'content', 'selected value %r, model %r after %s' % (got, m[1], what), self.hist)
            if not e.ok:
                return fail('choice', 'encode-raises', 'complete value does not encode: %s after %s' % (e.brief(), what), self.hist, e.sig)
            # nothing is left in the slots of the other alternatives (read without instantiating)
            try:
                for i, nm in enumerate(CH_NAMES):
                    if nm != m[0]:
                        stale = o.getComponentByPosition(i, default=None, instantiate=False)
                        if stale is not None and stale.isValue:
                            return fail('choice', 'stale-alternative', 'alternative %s still holds %s while %s is selected, after %s' % (
                                nm, stale.prettyPrint()[:40], m[0], what), self.hist)
                if o.isInconsistent:
                    return fail('choice', 'inconsistent', 'complete CHOICE value reports isInconsistent = %r after %s' % (o.isInconsistent, what), self.hist)
            except error.PyAsn1Error as ex:
                return fail('choice', 'slots-raise', 'reading the slots raised %s after %s' % (harness.exc_sig(ex), what), self.hist, harness.exc_sig(ex))
            ref = x690.der(CH_T, (m[0], m[1]))
            if e.value != ref:
                return fail('choice', 'encoding', 'DER %s, model %s after %s' % (e.value.hex()[:60], ref.hex()[:60], what), self.hist)
        else:
            if e.ok or e.status == 'leak':
                return fail('choice', 'incomplete-encodes', 'nothing (complete) selected: encode gives %s after %s' % (e.value.hex() if e.ok else e.brief(), what), self.hist, e.sig)
        return None

    def step(self, op):
        self.hist['ops'].append(op)
        name = op[0]
        o = self.o
        try:
            if name == 'set':
                how, nm, x = op[1], op[2], op[3]
                idx = CH_NAMES.index(nm)
                v = self.value(nm, x)
                if nm == 'z':
                    val = univ.SequenceOf(componentType=univ.Integer())
                    val.clear()
                    val.extend(v)
                else:
                    val = v
                if how == 0:
                    o.setComponentByName(nm, val)
                elif how == 1:
                    o.setComponentByPosition(idx, val)
                elif how == 2:
                    o[nm] = val
                else:
                    o.setComponentByType(o.componentType[idx].asn1Object.tagSet, val)
                self.m = (nm, v)
            elif name == 'fill-z':
                # the documented way to fill a constructed alternative: instantiate-and-return, then mutate
                o['z'].append(op[1])
                prev = list(self.m[1]) if (self.m is not None and self.m[0] == 'z' and self.m[1] is not None) else []
                self.m = ('z', prev + [op[1]])
            elif name == 'clear':
                o.clear()
                self.m = None
            elif name == 'reset':
                o.reset()
                self.m = None
            elif name == 'clone':
                before = self.snapshot()
                c = o.clone(cloneValueFlag=op[1])
                if self.snapshot() != before:
                    return fail('choice', 'clone-changes-original', 'clone() changed the original', self.hist)
                self.o = c
                self.m = self.m if op[1] else None
            elif name == 'read':
                return self.read(op[1], op[2])
            elif name == 'bad':
                return self.bad(op[1])
            else:
                raise ValueError(name)
        except LOOKUP + (AttributeError, TypeError, RuntimeError, ValueError) as ex:
            return fail('choice', 'mutator-raises', 'well-formed %s raised %s: %s' % (op[:3], harness.exc_sig(ex), str(ex)[:80]), self.hist,
                        '%s:%s' % (name, harness.exc_sig(ex)))
        return self.check(name)

    def bad(self, which):
        o = self.o
        acts = [(lambda: o.setComponentByName('nope', 1), "setComponentByName('nope')"),
                (lambda: o.setComponentByPosition(7, univ.Integer(1)), 'setComponentByPosition(7)'),
                (lambda: o.setComponentByName('x', univ.OctetString(b'q')), "setComponentByName('x', OctetString)"),
                (lambda: o['nope'], "obj['nope']")]
        fn, what = acts[which % len(acts)]
        before = self.snapshot()
        try:
            fn()
        except LOOKUP:
            pass
        except Exception as ex:
            return fail('choice', 'illformed-leak', 'ill-formed %s raised %s' % (what, harness.exc_sig(ex)), self.hist, harness.exc_sig(ex))
        else:
            return fail('choice', 'illformed-accepted', 'ill-formed %s was accepted' % what, self.hist)
        if self.snapshot() != before:
            return fail('choice', 'illformed-changes', 'rejected %s changed the object (was %s, is %s)' % (what, before[:2], self.snapshot()[:2]), self.hist)
        return None

    def read(self, which, arg):
        o, m = self.o, self.m
        before = self.snapshot()
        nm = CH_NAMES[arg % 3]
        try:
            if which == 0:
                got = o.getComponentByName(nm, default=None, instantiate=False)
                sel = m is not None and m[0] == nm and m[1] is not None
                if sel != (got is not None):
                    return fail('choice', 'read-getname', 'getComponentByName(%s, instantiate=False) gives %r, model %s' % (nm, got, m), self.hist)
            elif which == 1:
                if m is not None and m[1] is not None:
                    list(iter(o))
                    list(o.values())
                    list(o.items())
                    o[m[0]]
                else:
                    try:
                        list(iter(o))
                    except error.PyAsn1Error:
                        pass
            elif which == 2:
                try:
                    o.prettyPrint()
                    repr(o)
                except error.PyAsn1Error:
                    if m is not None and m[1] is not None:
                        raise           # printing a value must work; a valueless object may refuse
            elif which == 3:
                if m is not None and m[1] is not None:
                    if not (o == o.clone(cloneValueFlag=True)):
                        return fail('choice', 'read-eq', 'object differs from its own deep clone', self.hist)
            elif which == 4:
                (nm in o)
                bool(o) if (m is not None and m[1] is not None) else None
        except Exception as ex:
            return fail('choice', 'reader-raises', 'reader %d(%s) raised %s: %s' % (which, nm, harness.exc_sig(ex), str(ex)[:80]), self.hist,
                        'read%d:%s' % (which, harness.exc_sig(ex)))
        if self.snapshot() != before:
            return fail('choice', 'reader-changes', 'reader %d(%s) changed the object' % (which, nm), self.hist)
        return None


RUNNERS = {'of': OfRun, 'record': RecRun, 'choice': ChRun}


def run_history(hist):
    r = RUNNERS[hist['machine']](hist['setup'])
    for op in hist['ops']:
        f = r.step(list(op))
        if f is not None:
            return [f]
    return []


# =================================================================== (4) valueless scalars

def scalar_sweep(col):
    types = [univ.Integer, univ.Boolean, univ.BitString, univ.OctetString, univ.Null, univ.ObjectIdentifier, univ.Real,
             univ.Enumerated, char.UTF8String, char.IA5String, char.BMPString, useful.GeneralizedTime, useful.UTCTime, univ.Any]
    unary = ['__int__', '__float__', '__abs__', '__neg__', '__pos__', '__invert__', '__index__', '__bool__', '__len__', '__str__',
             '__bytes__', '__hash__', '__iter__', '__round__', '__trunc__', '__floor__', '__ceil__', '__reversed__']
    binary = ['__add__', '__radd__', '__sub__', '__rsub__', '__mul__', '__rmul__', '__mod__', '__rmod__', '__pow__', '__rpow__',
              '__floordiv__', '__rfloordiv__', '__truediv__', '__rtruediv__', '__divmod__', '__rdivmod__', '__and__', '__rand__',
              '__or__', '__ror__', '__xor__', '__rxor__', '__lshift__', '__rshift__', '__eq__', '__ne__', '__lt__', '__le__',
              '__gt__', '__ge__', '__contains__', '__getitem__']
    conv = ['asOctets', 'asNumbers', 'asInteger', 'asBinary', 'asTuple', 'prettyPrint', 'asDateTime']
    for cls in types:
        for name in unary + binary + conv:
            if not any(name in k.__dict__ for k in cls.__mro__ if k is not object) or (name == '__hash__' and cls.__hash__ is None):
                continue
            o = cls()
            arg = {univ.Integer: 1, univ.Real: 1.0}.get(cls, 1)
            case = {'scalar': cls.__name__, 'op': name}
            col.case(case, True, ['schema-scalar', 'type:' + cls.__name__], sample=case)
            try:
                if name in unary:
                    r = getattr(o, name)()
                    if name == '__iter__':
                        r = list(r)
                elif name in binary:
                    r = getattr(o, name)(arg if name != '__getitem__' else 0)
                else:
                    r = getattr(o, name)
                    r = r() if callable(r) else r
            except error.PyAsn1Error:
                continue
            except Exception as ex:
                col.fail('scalars', 'wrong-error', '%s().%s raised %s instead of the library\'s error' % (cls.__name__, name, harness.exc_sig(ex)),
                         case, sig='%s:%s' % (name, type(ex).__name__))
                continue
            if r is NotImplemented or r is _base.noValue or isinstance(r, _base.NoValue):
                continue
            if isinstance(r, _base.Asn1Item) and not r.isValue:
                continue          # a valueless object again: no data
            if name in ('prettyPrint', '__str__', '__hash__') or (name in ('__eq__', '__ne__') ):
                # printing a schema object and identity-style comparison / hashing are not data access
                continue
            col.fail('scalars', 'returns-data', '%s().%s returned %r on a valueless object' % (cls.__name__, name, r), case, sig=name)
    col.exhaustive = True


# =================================================================== (5) SEQUENCE / SET without declared components

def run_dynrec(case):
    """A record without componentType is filled by position and names its members field-0, field-1, ...: after every step it
    is a dict over those names in position order (len, keys, values, items, iteration, in, by-name and by-position reads), its
    DER is the SEQUENCE / SET of the members, and a value clone is indistinguishable from it. case: {'dynrec': 'SEQUENCE'|'SET',
    'ops': [[name, ...]]} -> failures"""
    cls = univ.Sequence if case['dynrec'] == 'SEQUENCE' else univ.Set
    o = cls()
    m = []                      # model: list of ints / bytes
    hist = {'dynrec': case['dynrec'], 'ops': []}

    def mk(x):
        return univ.OctetString(bytes(x)) if isinstance(x, (bytes, list)) else univ.Integer(x)

    def plain(x):
        return bytes(x.asOctets()) if isinstance(x, univ.OctetString) else int(x)

    def ref(model):
        body = [x690.der(ir.mk('OCTETSTRING' if isinstance(x, bytes) else 'INTEGER'), x) for x in model]
        if case['dynrec'] == 'SET':
            body = sorted(body, key=lambda e: e[0])          # two universal tags only: by tag
        body = b''.join(body)
        return x690.ident('U', True, 16 if case['dynrec'] == 'SEQUENCE' else 17) + x690.length(len(body)) + body

    for op in case['ops']:
        hist['ops'].append(op)
        try:
            if op[0] == 'set':
                i = min(op[1], len(m))
                v = bytes(op[2]) if isinstance(op[2], list) else op[2]
                if case['dynrec'] == 'SET' and i == len(m) and any(type(x) is type(v) for x in m):
                    continue        # a SET holds one member per tag
                if case['dynrec'] == 'SET' and i < len(m) and type(m[i]) is not type(v):
                    continue
                o.setComponentByPosition(i, mk(v))
                if i == len(m):
                    m.append(v)
                else:
                    m[i] = v
            elif op[0] == 'clone':
                o = o.clone(cloneValueFlag=True)
            elif op[0] == 'clear':
                o.clear()
                m = []
        except Exception as ex:
            return [fail('dynrec', 'raises', '%s raised %s' % (op, harness.exc_sig(ex)), hist, harness.exc_sig(ex))]
        if not m:
            continue
        names = ['field-%d' % i for i in range(len(m))]
        try:
            obs = {'len': len(o), 'keys': list(o.keys()), 'iter': list(iter(o)), 'values': [plain(x) for x in o.values()],
                   'items': [(k, plain(x)) for k, x in o.items()], 'in': all(n in o for n in names) and 'field-%d' % len(m) not in o,
                   'byname': [plain(o[n]) for n in names], 'bypos': [plain(o[i]) for i in range(len(m))]}
        except Exception as ex:
            return [fail('dynrec', 'read-raises', 'reading raised %s after %s' % (harness.exc_sig(ex), op), hist, harness.exc_sig(ex))]
        want = {'len': len(m), 'keys': names, 'iter': names, 'values': m, 'items': list(zip(names, m)), 'in': True, 'byname': m, 'bypos': m}
        for k in want:
            if obs[k] != want[k]:
                return [fail('dynrec', 'read-' + k, '%s is %r, model %r after %s' % (k, obs[k], want[k], op), hist)]
        e = lib.encode('DER', o)
        if not e.ok or e.value != ref(m):
            return [fail('dynrec', 'encoding', 'DER %s, model %s after %s' % (e.value.hex()[:60] if e.ok else e.brief(), ref(m).hex()[:60], op), hist)]
    return []


# =================================================================== (6) assignment and reading by tag, through nested untagged CHOICEs

def run_bytype(case):
    """SET {a INTEGER, c CHOICE {u CHOICE {p BOOLEAN, q OCTET STRING, w CHOICE {s NULL, t [0] INTEGER}}, r UTF8String}} driven by
    setComponentByType / getComponentByType with innerFlag=True (documented: "search for matching tagSet recursively") against
    a dict model. case: {'bytype': True, 'ops': [[leaf, value]]} -> failures"""
    W = {'k': 'CHOICE', 'tags': [], 'alts': [{'name': 's', 't': {'k': 'NULL', 'tags': []}}, {'name': 't', 't': {'k': 'INTEGER', 'tags': [['I', 'C', 0]]}}]}
    U = {'k': 'CHOICE', 'tags': [], 'alts': [{'name': 'p', 't': {'k': 'BOOLEAN', 'tags': []}}, {'name': 'q', 't': {'k': 'OCTETSTRING', 'tags': []}},
                                            {'name': 'w', 't': W}]}
    C = {'k': 'CHOICE', 'tags': [], 'alts': [{'name': 'u', 't': U}, {'name': 'r', 't': {'k': 'UTF8String', 'tags': []}}]}
    T = {'k': 'SET', 'tags': [], 'comps': [{'name': 'a', 't': INT, 'p': 'req'}, {'name': 'c', 't': C, 'p': 'req'}]}
    o = build.schema(T)
    leaf_tags = {'a': univ.Integer.tagSet, 'p': univ.Boolean.tagSet, 'q': univ.OctetString.tagSet, 'r': char.UTF8String.tagSet,
                 's': univ.Null.tagSet, 't': univ.Integer().subtype(implicitTag=ptag.Tag(ptag.tagClassContext, ptag.tagFormatSimple, 0)).tagSet}
    path = {'p': lambda x: ('u', ('p', x)), 'q': lambda x: ('u', ('q', x)), 'r': lambda x: ('r', x), 's': lambda x: ('u', ('w', ('s', None))),
            't': lambda x: ('u', ('w', ('t', x)))}
    m = {}
    hist = {'bytype': True, 'ops': []}
    for leaf, x in case['ops']:
        hist['ops'].append([leaf, x])
        val = {'a': x, 'p': bool(x % 2), 'q': bytes([x % 256]), 'r': 'v%d' % x, 's': None, 't': x}[leaf]
        try:
            o.setComponentByType(leaf_tags[leaf], '' if leaf == 's' else val, innerFlag=True)
        except Exception as ex:
            return [fail('bytype', 'raises', 'setComponentByType(%s, innerFlag=True) raised %s' % (leaf, harness.exc_sig(ex)), hist, harness.exc_sig(ex))]
        if leaf == 'a':
            m['a'] = val
        else:
            m['c'] = path[leaf](val)
        try:
            got = o.getComponentByType(leaf_tags[leaf], innerFlag=True)
            ok = {'a': lambda: int(got) == val, 'p': lambda: bool(got) == val, 'q': lambda: bytes(got.asOctets()) == val, 'r': lambda: str(got) == val,
                  's': lambda: got.isValue, 't': lambda: int(got) == val}[leaf]()
        except Exception as ex:
            return [fail('bytype', 'read-raises', 'getComponentByType(%s, innerFlag=True) raised %s' % (leaf, harness.exc_sig(ex)), hist, harness.exc_sig(ex))]
        if not ok:
            return [fail('bytype', 'read', 'reading %s back by tag gives %r, assigned %r' % (leaf, got, val), hist)]
        if 'a' in m and 'c' in m:
            e = lib.encode('DER', o)
            ref = x690.der(T, m)
            if not e.ok or e.value != ref:
                return [fail('bytype', 'encoding', 'DER %s, model %s after %s' % (e.value.hex()[:60] if e.ok else e.brief(), ref.hex()[:60], [leaf, x]), hist)]
    return []


def replay(case):
    if 'bytype' in case:
        return run_bytype(case)
    if 'dynrec' in case:
        return run_dynrec(case)
    if 'scalar' in case:
        c = harness.Collector()
        scalar_sweep(c)
        return [f for fl in c.failures.values() for f in fl if f['case'] == case]
    return run_history(case)


RAW_CASES = True


# =================================================================== state machines

def run_shard(desc, seed, tier, col):
    if desc['mode'] == 'scalars':
        return scalar_sweep(col)
    if desc['mode'] == 'dynrec':
        from hypothesis import strategies as st
        strat2 = st.lists(st.tuples(st.sampled_from(['a', 'p', 'q', 'r', 's', 't', 't', 's']), st.integers(0, 300)), min_size=1, max_size=8)

        def body2(ops):
            case = {'bytype': True, 'ops': [list(o) for o in ops]}
            leaves = [o[0] for o in ops]
            col.case(case, len(set(leaves)) >= 2, ['bytype'] + (['three-levels'] if any(x in leaves for x in 'st') else []),
                     sample={'container': 'SET with CHOICEs nested three deep', 'ops': case['ops'][:8]})
            for f in run_bytype(case):
                col.fail(f['sub'], f['kind'], f['msg'], f['case'], sig=f['sig'])
        harness.run_given(strat2, body2, seed + 1, max(50, desc['examples'] // 3), col)
        vals = st.one_of(st.sampled_from([0, 1, -1, 127, 128, 300]), st.lists(st.integers(0, 255), max_size=3))
        # (a position beyond the end appends: records of a dozen and more members - 'field-10' sorts before 'field-2' - are reached)
        pos = st.sampled_from([0, 1, 2, 3, 4, 9, 10, 11, 99, 99, 99, 99])
        op = st.one_of(st.tuples(st.just('set'), pos, vals), st.tuples(st.just('set'), pos, vals), st.tuples(st.just('set'), pos, vals),
                       st.tuples(st.just('clone')), st.tuples(st.just('clear')))
        strat = st.tuples(st.sampled_from(['SEQUENCE', 'SEQUENCE', 'SEQUENCE', 'SET']), st.lists(op, min_size=1, max_size=20))

        def body(x):
            case = {'dynrec': x[0], 'ops': [list(o) for o in x[1]]}
            names = [o[0] for o in case['ops']]
            col.case(case, 'clone' in names and 'set' in names[:names.index('clone')], ['dynrec:' + x[0]] + (['clone'] if 'clone' in names else []),
                     sample={'container': x[0] + ' without componentType', 'ops': case['ops'][:8]})
            for f in run_dynrec(case):
                col.fail(f['sub'], f['kind'], f['msg'], f['case'], sig=f['sig'])
        return harness.run_given(strat, body, seed, desc['examples'], col)
    import hypothesis
    from hypothesis import strategies as st
    from hypothesis.stateful import RuleBasedStateMachine, rule, initialize, run_state_machine_as_test
    ints = st.sampled_from([0, 1, 2, 3, 5, 7, 127, 128, -1, -129, 300, 70000])
    mode = desc['mode']

    class Base(RuleBasedStateMachine):
        def __init__(self):
            RuleBasedStateMachine.__init__(self)
            self.r = None
            self.dead = False
            self.nontriv = False
            self.last_mut = None

        def do(self, op, mutator):
            if self.dead or self.r is None:
                return
            ops = self.r.hist['ops']
            if mutator and any(o[0] in ('clear', 'reset', 'clone') for o in ops):
                self.nontriv = True
            if mutator and ops and ops[-1][0] == 'read' and any(o[0] not in ('read', 'bad') for o in ops[:-1]):
                self.nontriv = True
            f = self.r.step(list(op))
            col.case(repr((self.r.hist['setup'], self.r.hist['ops'])).encode(), self.nontriv, ['machine:' + mode, 'op:' + op[0]],
                     sample={'machine': mode, 'setup': self.r.hist['setup'], 'history': self.r.hist['ops'][-12:]})
            if f is not None:
                self.dead = True
                col.fail(f['sub'], f['kind'], f['msg'], dict(f['case'], ops=list(f['case']['ops'])), sig=f['sig'], size=len(f['case']['ops']))

    if mode == 'of':
        class M(Base):
            @initialize(kind=st.sampled_from(['SEQUENCEOF', 'SETOF']), typed=st.booleans(), raw=st.booleans(), nested=st.sampled_from([False, False, True]))
            def setup(self, kind, typed, raw, nested):
                self.r = OfRun({'kind': kind, 'typed': typed, 'raw': raw, 'nested': nested})

            @rule(x=ints)
            def append(self, x):
                self.do(['append', x], True)

            @rule(x=ints)
            def append_sub(self, x):
                self.do(['append-sub', x], True)

            @rule()
            def touch(self):
                self.do(['touch'], True)

            @rule(x=ints)
            def fill(self, x):
                self.do(['fill', x], True)

            @rule(xs=st.lists(ints, max_size=3))
            def extend(self, xs):
                self.do(['extend', xs], True)

            @rule(i=st.integers(-4, 4), x=ints)
            def setitem(self, i, x):
                n = len(self.r.m or []) if self.r else 0
                self.do(['setitem', max(-n, min(n, i)), x], True)

            @rule(i=st.integers(0, 4), x=ints)
            def setpos(self, i, x):
                self.do(['setpos', i, x], True)

            @rule(a=st.integers(0, 4), xs=st.lists(ints, min_size=1, max_size=3))
            def setslice(self, a, xs):
                self.do(['setslice', a, xs], True)

            @rule(rev=st.booleans(), key=st.integers(0, 3))
            def sort(self, rev, key):
                self.do(['sort', rev, key], True)

            @rule()
            def reverse(self):
                self.do(['reverse'], True)

            @rule()
            def clear(self):
                self.do(['clear'], True)

            @rule()
            def reset(self):
                self.do(['reset'], True)

            @rule(flag=st.booleans(), via_subtype=st.booleans())
            def clone(self, flag, via_subtype):
                self.do(['clone', flag, via_subtype], True)

            @rule(which=st.integers(0, 10), arg=st.integers(0, 20))
            def read(self, which, arg):
                self.do(['read', which, arg], False)

            @rule(which=st.integers(0, 3))
            def bad(self, which):
                self.do(['bad', which], False)
    elif mode == 'record':
        class M(Base):
            @initialize(kind=st.sampled_from(['SEQUENCE', 'SET']))
            def setup(self, kind):
                self.r = RecRun({'kind': kind})

            @rule(how=st.integers(0, 5), nm=st.sampled_from(REC_NAMES), x=ints)
            def set(self, how, nm, x):
                self.do(['set', how, nm, x], True)

            @rule(fld=st.sampled_from(['p', 'q']), x=ints)
            def setf(self, fld, x):
                self.do(['setf', fld, x], True)

            @rule()
            def clear(self):
                self.do(['clear'], True)

            @rule()
            def reset(self):
                self.do(['reset'], True)

            @rule(flag=st.booleans())
            def clone(self, flag):
                self.do(['clone', flag], True)

            @rule(which=st.integers(0, 8), arg=st.integers(0, 9))
            def read(self, which, arg):
                self.do(['read', which, arg], False)

            @rule(which=st.integers(0, 6))
            def bad(self, which):
                self.do(['bad', which], False)
    else:
        class M(Base):
            @initialize()
            def setup(self):
                self.r = ChRun({})

            @rule(how=st.integers(0, 3), nm=st.sampled_from(CH_NAMES), x=ints)
            def set(self, how, nm, x):
                self.do(['set', how, nm, x], True)

            @rule(x=ints)
            def fill_z(self, x):
                self.do(['fill-z', x], True)

            @rule()
            def clear(self):
                self.do(['clear'], True)

            @rule()
            def reset(self):
                self.do(['reset'], True)

            @rule(flag=st.booleans())
            def clone(self, flag):
                self.do(['clone', flag], True)

            @rule(which=st.integers(0, 4), arg=st.integers(0, 5))
            def read(self, which, arg):
                self.do(['read', which, arg], False)

            @rule(which=st.integers(0, 3))
            def bad(self, which):
                self.do(['bad', which], False)

    run_state_machine_as_test(hypothesis.seed(seed % (2 ** 63))(M),
                              settings=hypothesis.settings(max_examples=desc['examples'], stateful_step_count=STEPS[tier], database=None,
                                                           deadline=None, suppress_health_check=list(hypothesis.HealthCheck),
                                                           phases=[hypothesis.Phase.generate], print_blob=False))


FINDINGS = {}
