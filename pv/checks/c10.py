"""C10 - whatever a decoder accepts is a well-formed, re-encodable value of the type."""
from pv.core import ir, gen, build, absval, lib, harness, x690, mutate, cons
from pv.core import findings as fz

PROP = 'C10'
LEVEL = 'exploration'
DESIGN_REF = 'DESIGN.md 4/C10'
RULE = ('Hypothesis draws (T, v) from U and decorates T with value-range / single-value / size / permitted-alphabet constraints on '
        'scalars, size constraints on SEQUENCE OF / SET OF and component-presence constraints on records (v conforms by '
        'construction). Inputs for decode(b, asn1Spec=T), BER/CER/DER: valid encodings of v; encodings of neighbour values that '
        'violate exactly one constraint (boundary +-1, one element too many / too few, forbidden character, forbidden / missing '
        'component); structurally near inputs (duplicated SET member, surplus trailing component, mandatory component removed); '
        'byte-level mutations of all of these. Only inputs for which the decoder RETURNS are judged: the result must conform to '
        'T under an independent evaluator (declared classes and tag sets, every mandatory component, no undeclared one, every '
        'constraint by its set-theoretic denotation), the library\'s encoder must accept it and decode(encode(result)) must give '
        'the same abstract value. Non-trivial = an accepted input that is not a valid encoding of a conforming value, or a valid '
        'one under a constrained type; distinct = distinct (T, input, decoder).')
RULE += (' ' + 'Also: ANY members (what an ANY holds must start with one identifier that is not [UNIVERSAL 0] and, when definite, span exactly the held octets), a member whose identifier octet is zeroed, and the accepted result re-encoded in indefinite form as well (outside known finding F01).')
ASSUMPTIONS = ['constraint denotations are evaluated by pv/core/cons.py, not by pyasn1.type.constraint']
SHARDS = {'quick': (16, 160), 'thorough': (16, 5000)}
BUDGET = {'quick': 100, 'thorough': 1500}
MIN_NONTRIVIAL = {'quick': 500, 'thorough': 5000}
CFG = {'long_str_pct': 0, 'any': True, 'max_depth': 2, 'real10_pct': 0, 'defaults': True, 'time_kinds': False}
CONS_KINDS = ('INTEGER', 'OCTETSTRING', 'BITSTRING', 'SEQUENCEOF', 'SETOF', 'UTF8String', 'IA5String', 'PrintableString',
              'VisibleString', 'NumericString')


def shards(tier):
    n, per = SHARDS[tier]
    return [{'examples': per, 'i': i} for i in range(n)]


# ------------------------------------------------------------------ decoration with constraints

def decorate(d, T, v):
    """Attach constraints to type nodes; every value occurring at a node satisfies its constraint."""
    occ = {}
    order = []
    for t, x in fz.present_nodes(T, v):
        if id(t) not in occ:
            occ[id(t)] = (t, [])
            order.append(id(t))
        occ[id(t)][1].append(x)
    # DEFAULT values are values of their component type as well
    for t in fz.type_nodes(T):
        if t['k'] in ir.RECORD_KINDS:
            for c in t['comps']:
                if c['p'] == 'def':
                    # (a constructed default brings values for the nodes below it, too)
                    for t2, x2 in fz.present_nodes(c['t'], c['d']):
                        occ.setdefault(id(t2), (t2, []))[1].append(x2)
                        if id(t2) not in order:
                            order.append(id(t2))
    for key in order:
        t, vals = occ[key]
        k = t['k']
        if k in CONS_KINDS and d.pct(45):
            def fitted():
                c = cons.draw_expr(d, k, d.pick([1, 1, 2, 3]))
                bad = [x for x in vals if not cons.admits(c, k, x)]
                if bad:
                    if k in ('SEQUENCEOF', 'SETOF', 'BITSTRING'):
                        sizes = sorted(set(cons._size(k, x) for x in bad))
                        c = {'c': 'or', 'ops': [c] + [{'c': 'size', 'lo': n, 'hi': n} for n in sizes]}
                    else:
                        uniq = []
                        for x in bad:
                            if x not in uniq:
                                uniq.append(x)
                        c = {'c': 'or', 'ops': [c, {'c': 'single', 'vals': uniq}]}
                return c
            c = fitted()
            if d.pct(35):
                # the type is derived in two steps: parent constraint, then a narrowing one - preferably one alternative of
                # the parent's union, else a second fitted expression
                alts = [a for a in c['ops'] if all(cons.admits(a, k, x) for x in vals)] if c['c'] == 'or' else []
                c2 = d.pick(alts) if alts and d.pct(70) else fitted()
                t['cons_steps'] = [c, c2]
                c = {'c': 'and', 'ops': [c, c2]}
            elif k not in ('SEQUENCEOF', 'SETOF') and not t.get('named') and d.pct(25):
                t['cons_class'] = True
            t['cons'] = c
        elif k in ir.RECORD_KINDS and d.pct(35):
            rules = []
            for cmp_ in t['comps']:
                if cmp_['p'] != 'opt':
                    continue
                pres = [cmp_['name'] in x for x in vals]
                if all(pres) and d.pct(60):
                    rules.append([cmp_['name'], 'present'])
                elif not any(pres) and d.pct(60):
                    rules.append([cmp_['name'], 'absent'])
            if rules:
                t['cons'] = {'c': 'withcomp', 'rules': rules}
    return T


def _lenient_header(b):
    """Identifier and length octets read the way the decoder reads them (a long-form tag number below 31 is let through).
    -> (class letter, number, length or None, position of the contents)"""
    if not b:
        raise x690.RefError('truncated', 'empty')
    cls = 'UACP'[b[0] >> 6]
    num, p = b[0] & 0x1f, 1
    if num == 0x1f:
        num = 0
        while True:
            if p >= len(b):
                raise x690.RefError('truncated', 'identifier')
            num = (num << 7) | (b[p] & 0x7f)
            p += 1
            if not b[p - 1] & 0x80:
                break
    if p >= len(b):
        raise x690.RefError('truncated', 'length')
    fo = b[p]
    p += 1
    if fo == 0x80:
        return cls, num, None, p
    if fo < 0x80:
        return cls, num, fo, p
    n = fo & 0x7f
    if p + n > len(b):
        raise x690.RefError('truncated', 'length octets')
    return cls, num, int.from_bytes(b[p:p + n], 'big'), p + n


def check_cons(T, v, path=''):
    """-> list of violated constraints (path, description) under the independent evaluator."""
    out = []
    k = T['k']
    c = T.get('cons')
    if c is not None and not cons.admits(c, k, v):
        out.append('%s: %s value %s violates %s' % (path or '.', k, absval.short(v, 60), ir.jdump(c)[:120]))
    if k == 'ANY' and isinstance(v, (bytes, bytearray)) and not T.get('tags'):
        # an untagged ANY stands for one encoding of some value: one identifier that is not [UNIVERSAL 0] (the end-of-octets
        # marker is not a value), and a definite length that spans exactly what is held. (What lies inside a constructed
        # encoding is not the decoder's business: ANY is opaque.)
        try:
            cls, num, ln, pos = _lenient_header(bytes(v))
            if cls == 'U' and num == 0:
                out.append('%s: ANY holds %s - the end-of-octets marker is not a value' % (path or '.', bytes(v).hex()[:40]))
            elif ln is not None and pos + ln != len(v):
                out.append('%s: ANY holds %s, which is not exactly one encoding' % (path or '.', bytes(v).hex()[:40]))
        except x690.RefError as r:
            out.append('%s: ANY holds %s, which does not start with a complete header (%s)' % (path or '.', bytes(v).hex()[:40], r.kind))
    if k in ir.RECORD_KINDS:
        for cmp_ in T['comps']:
            if cmp_['name'] in v:
                out += check_cons(cmp_['t'], v[cmp_['name']], path + '.' + cmp_['name'])
    elif k in ir.OF_KINDS:
        for i, x in enumerate(v):
            out += check_cons(T['of'], x, '%s[%d]' % (path, i))
    elif k == 'CHOICE':
        name, inner = v
        for a in T['alts']:
            if a['name'] == name:
                out += check_cons(a['t'], inner, path + '.' + name)
    return out


# ------------------------------------------------------------------ neighbour values

def neighbours(d, T, v):
    """Values of the unconstrained type that break exactly one constraint / structural rule of T: [(label, v')]."""
    out = []
    sites = []
    for t, x in fz.present_nodes(T, v):
        if t.get('cons') is not None:
            sites.append((t, x))
    for t, x in sites[:4]:
        k = t['k']
        c = t['cons']
        cands = []
        for cand in cons.candidates(d, c, k):
            if isinstance(cand, tuple) and cand and cand[0] == 'size':
                if k in ir.OF_KINDS:
                    n = cand[1]
                    base = list(x) if x else [gen.draw_value(d, t['of'])]
                    cands.append((base * (n // max(1, len(base)) + 1))[:n])
                elif k in ('OCTETSTRING', 'BITSTRING') or k in ir.CHAR_KINDS:
                    cands.append(cons.value_of_size(d, k, cand[1]))
                    if k == 'BITSTRING' and isinstance(x, tuple) and x[1] < (1 << cand[1]):
                        # the same bits with more / fewer leading zeros: another BIT STRING that is numerically the same
                        cands.append((cand[1], x[1]))
            elif isinstance(cand, tuple) and cand and cand[0] == 'chars':
                if k in ir.CHAR_KINDS:
                    cands.append((x or '') + d.pick('zZ9#'))
            else:
                cands.append(cand)
        if k == 'withcomp' or c['c'] == 'withcomp':
            for name, rule in c['rules']:
                y = dict(x)
                if rule == 'present':
                    y.pop(name, None)
                else:
                    ct = [cc for cc in t['comps'] if cc['name'] == name][0]['t']
                    y[name] = gen.draw_value(d, ct)
                cands.append(y)
        for cand in cands:
            try:
                if cons.admits(c, k, cand):
                    continue
            except Exception:
                continue
            v2 = _replace(T, v, t, x, cand)
            if v2 is not None:
                out.append(('violates-constraint:' + k, v2))
    return out


def _replace(T, v, target_t, target_x, new):
    """Copy of v with the first occurrence of (target_t, target_x) replaced by new."""
    done = [False]

    def rec(t, x):
        if not done[0] and t is target_t and x is target_x:
            done[0] = True
            return new
        k = t['k']
        if k in ir.RECORD_KINDS:
            return {c['name']: rec(c['t'], x[c['name']]) for c in t['comps'] if c['name'] in x}
        if k in ir.OF_KINDS:
            return [rec(t['of'], e) for e in x]
        if k == 'CHOICE':
            name, inner = x
            for a in t['alts']:
                if a['name'] == name:
                    return (name, rec(a['t'], inner))
        return x
    r = rec(T, v)
    return r if done[0] else None


def structural(d, T, v, enc):
    """Structurally damaged variants of a DER encoding (top-level record / OF only): [(label, bytes)]."""
    out = []
    try:
        top, _ = x690.walk(enc)
    except x690.RefError:
        return out
    if not top.con or not top.kids or top.indefinite:
        return out
    kids = [enc[k.start:k.end] for k in top.kids]

    def rebuild(parts):
        body = b''.join(parts)
        return x690.ident(top.cls, True, top.num) + x690.length(len(body)) + body
    i = d.int(0, len(kids) - 1)
    out.append(('duplicated-member', rebuild(kids[:i + 1] + [kids[i]] + kids[i + 1:])))
    out.append(('surplus-trailing', rebuild(kids + [x690.der(ir.mk('INTEGER'), 5)])))
    out.append(('member-removed', rebuild(kids[:i] + kids[i + 1:])))
    if len(kids) >= 2:
        out.append(('members-swapped', rebuild(kids[:i] + kids[i + 1:] + [kids[i]])))
    # the identifier of one member replaced by [UNIVERSAL 0] (what an end-of-octets marker starts with), length and contents kept
    j = d.int(0, len(kids) - 1)
    if kids[j][0] & 0x1f != 0x1f:
        out.append(('tag-zeroed', rebuild(kids[:j] + [b'\x00' + kids[j][1:]] + kids[j + 1:])))
    return out


# ------------------------------------------------------------------ the check

def run_case(case, col=None):
    T = case['T']
    fails = []

    def F(sub, kind, msg, sig='', obs=None):
        fails.append({'sub': sub, 'kind': kind, 'sig': sig, 'msg': msg, 'obs': obs})

    sch = build.schema(T)
    for label, b, valid in case['inputs']:
        for codec in ('BER', 'CER', 'DER'):
            d = lib.decode(codec, b, sch)
            accepted = d.ok
            if col is not None:
                col.case(b + codec.encode() + ir.jdump(T)[:400].encode(), accepted and (not valid or _constrained(T)),
                         ['input:' + label.split(':')[0], 'decoder:' + codec, 'accepted' if accepted else ('rejected' if d.status == 'err' else 'leak')],
                         sample={'type': ir.show_type(T)[:200], 'constraints': _cons_summary(T), 'input': b.hex()[:100], 'kind_of_input': label,
                                 'decoder': codec, 'accepted': accepted})
            if not accepted:
                if valid and label == 'valid' and d.status == 'err' and codec == 'BER':
                    F('valid-' + codec.lower(), 'rejected', 'valid encoding of a conforming value rejected: %s | %s' % (d.brief(), b.hex()[:120]), d.sig)
                continue
            sub = '%s-%s' % (label.split(':')[0], codec.lower())
            try:
                r = absval.absval(T, d.value, sch)
            except absval.Shape as e:
                F(sub, 'ill-formed', 'accepted, but the result is not a complete value of the type: %s | input=%s' % (e, b.hex()[:120]), sig='shape')
                continue
            except Exception as e:
                F(sub, 'ill-formed', 'accepted, but reading the result raises %s | input=%s' % (harness.exc_sig(e), b.hex()[:120]), sig=harness.exc_sig(e))
                continue
            bad = check_cons(T, r)
            if bad:
                F(sub, 'constraint', 'accepted, but %s | input=%s' % (bad[0], b.hex()[:120]), sig=bad[0].split(' ')[1] if ' ' in bad[0] else '')
                continue
            e = lib.encode('BER', d.value)
            if not e.ok:
                F(sub, 're-encode', 'accepted, but the library\'s encoder refuses the result: %s | input=%s' % (e.brief(), b.hex()[:120]), e.sig)
                continue
            d2 = lib.decode('BER', e.value, sch)
            if not d2.ok:
                F(sub, 'fixpoint', 'decode(encode(result)) fails: %s | input=%s' % (d2.brief(), b.hex()[:120]), d2.sig)
                continue
            free_form = any(t['k'] in ir.RECORD_KINDS and not t['comps'] for t in fz.type_nodes(T))
            # (a record type declared without components is the library's free-form container: it takes members of any type)
            if not fz.explicit_over_nonindef_prim(T, r) and not fz.tagged_any_present(T, r) and not free_form:
                # the indefinite-length form of the same result reads back as well (outside the region of known finding F01)
                e3 = lib.encode('BER', d.value, defMode=False)
                d3 = lib.decode('BER', e3.value, sch) if e3.ok else None
                if not e3.ok:
                    F(sub, 're-encode', 'accepted, but encode(result, defMode=False) fails: %s | input=%s' % (e3.brief(), b.hex()[:120]), e3.sig)
                elif not d3.ok or d3.rest != b'':
                    F(sub, 'fixpoint', 'decode(encode(result, defMode=False)) fails: %s | input=%s' % (d3.brief(), b.hex()[:120]), d3.sig)
                else:
                    try:
                        if not ir.same(T, r, absval.absval(T, d3.value, sch)):
                            F(sub, 'fixpoint', 'decode(encode(result, defMode=False)) differs from the result | input=%s' % b.hex()[:100])
                    except Exception as ex:
                        F(sub, 'fixpoint', 'decode(encode(result, defMode=False)) is ill-formed: %s | input=%s' % (ex, b.hex()[:120]))
            try:
                r2 = absval.absval(T, d2.value, sch)
            except Exception as ex:
                F(sub, 'fixpoint', 'decode(encode(result)) is ill-formed: %s | input=%s' % (ex, b.hex()[:120]))
                continue
            if not ir.same(T, r, r2):
                F(sub, 'fixpoint', 'decode(encode(result)) = %s differs from result %s | input=%s' % (absval.short(r2, 80), absval.short(r, 80), b.hex()[:100]),
                  obs={'r': r, 'r2': r2})
    return fails


def _constrained(T):
    return any(t.get('cons') is not None for t in fz.type_nodes(T))


def _cons_summary(T):
    return [ir.jdump(t['cons'])[:100] for t in fz.type_nodes(T) if t.get('cons') is not None][:4]


def replay(case):
    return [dict(f, case=ir.to_jsonable(case), obs=ir.to_jsonable(f.get('obs'))) for f in run_case(case)]


def run_shard(desc, seed, tier, col):
    from hypothesis import strategies as st

    @st.composite
    def cases(draw):
        c = dict(gen.DEFAULT_CFG, **CFG)
        d = gen.D(draw, c)
        T = gen.draw_type(d)
        v = gen.draw_value(d, T)
        T = decorate(d, T, v)
        inputs = []
        form = d.pick(['DER', 'CER', 'BER-indef', 'BER-drawn'])
        enc = gen.encode_form(draw, T, v, form)
        inputs.append(('valid', enc, True))
        der = x690.der(T, v)
        for label, v2 in neighbours(d, T, v)[:4]:
            try:
                # (in DER, or in a drawn non-canonical form: a check done for one length form only would go unnoticed)
                nform = d.pick(['DER', 'DER', 'CER', 'BER-indef'])
                inputs.append((label, x690.der(T, v2) if nform == 'DER' else gen.encode_form(draw, T, v2, nform), False))
            except Exception:
                pass
        for label, b in structural(d, T, v, der):
            inputs.append((label, b, False))
        for _ in range(2):
            src = d.pick(inputs)[1]
            inputs.append(('mutated', mutate.mutate(d, src), False))
        if d.pct(30):
            T2 = gen.draw_type(d)
            inputs.append(('other-type', x690.der(T2, gen.draw_value(d, T2)), False))
        return {'T': T, 'inputs': inputs}

    def body(case):
        seen = set()
        col.begin(case)
        for f in run_case(case, col):
            key = (f['sub'], f['kind'], f['sig'])
            if key in seen:
                continue
            seen.add(key)
            col.fail(f['sub'], f['kind'], f['msg'], case, sig=f['sig'], obs=f.get('obs'))

    harness.run_given(cases(), body, seed, desc['examples'], col)



FINDINGS = {}
