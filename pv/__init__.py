import sys
if hasattr(sys, 'set_int_max_str_digits'):
    sys.set_int_max_str_digits(0)
