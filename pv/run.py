"""CLI: python -m pv.run C07 [--tier quick|thorough] [--replay FILE] [--seed N]"""
import importlib
import sys


def main():
    if len(sys.argv) < 2:
        print('usage: python -m pv.run <PROPERTY-ID> [--tier quick|thorough] [--replay FILE]')
        return 2
    prop = sys.argv[1].upper()
    try:
        mod = importlib.import_module('pv.checks.%s' % prop.lower())
    except ImportError as e:
        print('HARNESS-ERROR property=%s cannot import the check: %s' % (prop, e))
        return 2
    from pv.core import harness
    return harness.main(mod, sys.argv[2:])


if __name__ == '__main__':
    sys.exit(main())
