"""Thin wrappers around the library's codec entry points that classify outcomes."""
import io

from pyasn1 import error
from pyasn1.codec.ber import encoder as ber_enc, decoder as ber_dec
from pyasn1.codec.cer import encoder as cer_enc, decoder as cer_dec
from pyasn1.codec.der import encoder as der_enc, decoder as der_dec

from .harness import exc_sig

ENC = {'BER': ber_enc, 'CER': cer_enc, 'DER': der_enc}
DEC = {'BER': ber_dec, 'CER': cer_dec, 'DER': der_dec}


class Out(object):
    """Outcome of a library call: ok (value[, rest]) | err (a PyAsn1Error) | leak (any other exception)."""
    __slots__ = ('status', 'value', 'rest', 'exc', 'sig')

    def __init__(self, status, value=None, rest=None, exc=None):
        self.status = status
        self.value = value
        self.rest = rest
        self.exc = exc
        self.sig = exc_sig(exc) if exc is not None else ''

    @property
    def ok(self):
        return self.status == 'ok'

    def brief(self):
        if self.status == 'ok':
            return 'ok'
        return '%s %s: %s' % (self.status, self.sig, str(self.exc)[:200])

    def errclass(self):
        """Coarse class used when outcomes are compared."""
        if self.status == 'ok':
            return 'ok'
        if isinstance(self.exc, error.EndOfStreamError):
            return 'underrun'
        if isinstance(self.exc, error.SubstrateUnderrunError):
            return 'underrun'
        if isinstance(self.exc, error.PyAsn1Error):
            return 'PyAsn1Error'
        return type(self.exc).__name__


def encode(codec, obj, **kw):
    try:
        return Out('ok', ENC[codec].encode(obj, **kw))
    except error.PyAsn1Error as e:
        return Out('err', exc=e)
    except RecursionError as e:
        return Out('leak', exc=e)
    except Exception as e:
        return Out('leak', exc=e)


def decode(codec, data, spec=None, **kw):
    try:
        if spec is None:
            v, rest = DEC[codec].decode(data, **kw)
        else:
            v, rest = DEC[codec].decode(data, asn1Spec=spec, **kw)
        return Out('ok', v, rest)
    except error.PyAsn1Error as e:
        return Out('err', exc=e)
    except RecursionError as e:
        return Out('leak', exc=e)
    except Exception as e:
        return Out('leak', exc=e)


def stream_all(codec, stream, spec=None, max_items=10000, **kw):
    """Iterate a StreamingDecoder to exhaustion on a complete stream.
    -> (items, final) where final is 'stop' or an Out describing the exception."""
    items = []
    try:
        if spec is None:
            it = iter(DEC[codec].StreamingDecoder(stream, **kw))
        else:
            it = iter(DEC[codec].StreamingDecoder(stream, asn1Spec=spec, **kw))
        for x in it:
            items.append(x)
            if len(items) >= max_items:
                return items, Out('leak', exc=RuntimeError('no termination after %d items' % max_items))
        return items, 'stop'
    except error.PyAsn1Error as e:
        return items, Out('err', exc=e)
    except Exception as e:
        return items, Out('leak', exc=e)
