"""pyasn1 object -> IR value ("abstract content"), using non-instantiating accessors only."""
from pyasn1.type import univ, base

from . import ir
from .build import SIMPLE_CLASS, CONSTRUCTED_CLASS


class Shape(Exception):
    """The object does not have the shape the type promises (wrong class, tag set, placeholder...)."""


def absval(T, obj, sch=None, path='', check_type=True):
    """Abstract content of obj under IR type T. sch: the schema object obj must conform to (class and
    tagSet are compared when given). Raises Shape when obj is not a complete value of T."""
    k = T['k']
    if obj is None or obj is base.noValue or not isinstance(obj, base.Asn1Item):
        raise Shape('%s: not an ASN.1 value object: %r' % (path or '.', type(obj).__name__))
    want = SIMPLE_CLASS.get(k) or CONSTRUCTED_CLASS[k]
    if check_type:
        if not isinstance(obj, want):
            raise Shape('%s: %s where %s expected' % (path or '.', type(obj).__name__, want.__name__))
        if sch is not None and obj.tagSet != sch.tagSet:
            raise Shape('%s: tagSet %s differs from the schema %s' % (path or '.', obj.tagSet, sch.tagSet))
    if k in ir.RECORD_KINDS:
        if obj._componentValues is base.noValue:
            raise Shape('%s: valueless %s' % (path or '.', k))
        out = {}
        for idx, c in enumerate(T['comps']):
            comp = obj.getComponentByPosition(idx, default=None, instantiate=False)
            if comp is None or comp is base.noValue:
                continue
            if not isinstance(comp, base.Asn1Item):
                raise Shape('%s.%s: component is %r' % (path, c['name'], type(comp).__name__))
            if not comp.isValue:
                if c['p'] == 'req':
                    raise Shape('%s.%s: mandatory component is a valueless placeholder' % (path, c['name']))
                continue
            cs = sch.componentType[idx].asn1Object if sch is not None else None
            out[c['name']] = absval(c['t'], comp, cs, path + '.' + c['name'], check_type)
        for c in T['comps']:
            if c['p'] == 'req' and c['name'] not in out:
                raise Shape('%s.%s: mandatory component absent' % (path, c['name']))
        return out
    if k in ir.OF_KINDS:
        if obj._componentValues is base.noValue:
            raise Shape('%s: valueless %s' % (path or '.', k))
        out = []
        cs = sch.componentType if sch is not None else None
        for i in range(len(obj)):
            comp = obj.getComponentByPosition(i, default=None, instantiate=False)
            if comp is None or comp is base.noValue or not isinstance(comp, base.Asn1Item) or not comp.isValue:
                raise Shape('%s[%d]: element is not a value' % (path, i))
            out.append(absval(T['of'], comp, cs, '%s[%d]' % (path, i), check_type))
        return out
    if k == 'CHOICE':
        if obj._currentIdx is None:
            raise Shape('%s: CHOICE without a selected alternative' % (path or '.'))
        idx = obj._currentIdx
        comp = obj.getComponentByPosition(idx, default=None, instantiate=False)
        if comp is None or comp is base.noValue or not comp.isValue:
            raise Shape('%s: selected CHOICE alternative has no value' % (path or '.'))
        a = T['alts'][idx]
        cs = sch.componentType[idx].asn1Object if sch is not None else None
        return (a['name'], absval(a['t'], comp, cs, path + '.' + a['name'], check_type))
    if not obj.isValue:
        raise Shape('%s: valueless %s' % (path or '.', k))
    if k == 'BOOLEAN':
        return bool(int(obj))
    if k in ('INTEGER', 'ENUMERATED'):
        return int(obj)
    if k == 'BITSTRING':
        n = len(obj)
        return (n, int(obj.asInteger()) if n else 0)
    if k in ('OCTETSTRING', 'ANY'):
        return bytes(obj.asOctets())
    if k == 'NULL':
        return None
    if k == 'OID':
        return tuple(int(x) for x in obj.asTuple())
    if k == 'REAL':
        if obj.isPlusInf:
            return 'inf'
        if obj.isMinusInf:
            return '-inf'
        m, b, e = tuple(obj)
        if not m:
            return 0
        if int(m) != m:
            raise Shape('%s: REAL mantissa %r is not integral' % (path or '.', m))
        return (int(m), int(b), int(e))
    if k in ir.CHAR_KINDS:
        return bytes(obj.asOctets()).decode(ir.codec_of(T))
    raise ValueError(k)


def equal(T, obj, v, sch=None):
    """-> (True, None) or (False, explanation)"""
    try:
        got = absval(T, obj, sch)
    except Shape as e:
        return False, 'shape: %s' % e
    except UnicodeDecodeError as e:
        return False, 'shape: undecodable text %s' % e
    if ir.same(T, got, v):
        return True, None
    return False, 'value %s != expected %s' % (short(got), short(v))


def short(v, n=160):
    s = repr(v)
    return s if len(s) <= n else s[:n] + '...'
