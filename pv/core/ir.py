"""Type and value IR for the ASN.1 universe U (no pyasn1 import here).

Types are plain dicts (JSON-native):

    {"k": KIND, "tags": [[mode, cls, num], ...], ...kind specific...}

  * mode  'I' (IMPLICIT) | 'E' (EXPLICIT); cls 'A' application | 'C' context | 'P' private;
    tags are applied innermost first (tags[0] is applied first).
  * INTEGER            optional "named": [[name, int], ...]
  * ENUMERATED         "named": [[name, int], ...]   (non empty)
  * SEQUENCE / SET     "comps": [{"name", "t", "p": "req"|"opt"|"def", "d": value}]
  * SEQUENCEOF / SETOF "of": T
  * CHOICE             "alts": [{"name", "t"}]
  * ANY
  * optional "cons": constraint annotation (C10 / C14 only)

Values are plain Python data:
  BOOLEAN bool; INTEGER/ENUMERATED int; BITSTRING (nbits, intvalue); OCTETSTRING bytes;
  NULL None; OID tuple of ints; REAL 0 | 'inf' | '-inf' | (m, base, e) with base in {2, 10}, m != 0;
  character strings / useful types str; records dict name -> value (present components only);
  OF list; CHOICE (name, value); ANY bytes (one complete TLV).
"""
import json
from fractions import Fraction

UNIVERSAL = {
    'BOOLEAN': 1, 'INTEGER': 2, 'BITSTRING': 3, 'OCTETSTRING': 4, 'NULL': 5, 'OID': 6,
    'ObjectDescriptor': 7, 'REAL': 9, 'ENUMERATED': 10, 'UTF8String': 12,
    'SEQUENCE': 16, 'SEQUENCEOF': 16, 'SET': 17, 'SETOF': 17,
    'NumericString': 18, 'PrintableString': 19, 'TeletexString': 20, 'VideotexString': 21,
    'IA5String': 22, 'UTCTime': 23, 'GeneralizedTime': 24, 'GraphicString': 25,
    'VisibleString': 26, 'GeneralString': 27, 'UniversalString': 28, 'BMPString': 30,
}

# python codec by which the characters of each restricted string type become octets
CHAR_CODEC = {
    'UTF8String': 'utf-8', 'NumericString': 'ascii', 'PrintableString': 'ascii',
    'TeletexString': 'latin-1', 'VideotexString': 'latin-1', 'IA5String': 'ascii',
    'GraphicString': 'latin-1', 'VisibleString': 'ascii', 'GeneralString': 'latin-1',
    'UniversalString': 'utf-32-be', 'BMPString': 'utf-16-be',
    'ObjectDescriptor': 'latin-1', 'GeneralizedTime': 'ascii', 'UTCTime': 'ascii',
}
CHAR_KINDS = tuple(CHAR_CODEC)


def codec_of(T):
    """Python codec between the characters and the octets of string type T: the type's own, or the one given with the
    library's documented `encoding=` option (T['enc_opt'])."""
    return T.get('enc_opt') or CHAR_CODEC[T['k']]
STRING_KINDS = ('OCTETSTRING', 'BITSTRING') + CHAR_KINDS     # may be segmented in BER
RECORD_KINDS = ('SEQUENCE', 'SET')
OF_KINDS = ('SEQUENCEOF', 'SETOF')
CONSTRUCTED_KINDS = RECORD_KINDS + OF_KINDS
SCALAR_KINDS = ('BOOLEAN', 'INTEGER', 'ENUMERATED', 'BITSTRING', 'OCTETSTRING', 'NULL', 'OID',
                'REAL') + CHAR_KINDS

CLS_BITS = {'U': 0x00, 'A': 0x40, 'C': 0x80, 'P': 0xC0}
BITS_CLS = {v: k for k, v in CLS_BITS.items()}


def mk(kind, tags=(), **kw):
    t = {'k': kind, 'tags': [list(x) for x in tags]}
    t.update(kw)
    return t


def comp(name, t, p='req', d=None):
    c = {'name': name, 't': t, 'p': p}
    if p == 'def':
        c['d'] = d
    return c


def tag_stack(T):
    """Wire tags of T outermost first as [(cls, num)], plus whether the innermost one is the
    content-bearing tag (True) or every tag is an explicit wrapper (untagged CHOICE / ANY)."""
    k = T['k']
    if k in ('CHOICE', 'ANY'):
        stack = []
    else:
        stack = [('U', UNIVERSAL[k])]
    for mode, cls, num in T.get('tags', ()):
        if mode == 'I':
            if not stack:
                raise ValueError('IMPLICIT tag on an untagged CHOICE/ANY')
            stack[0] = (cls, num)
        else:
            stack.insert(0, (cls, num))
    return stack, k not in ('CHOICE', 'ANY')


def first_tags(T):
    """Set of (cls, num) an encoding of T may start with; None = anything (untagged ANY)."""
    stack, _ = tag_stack(T)
    if stack:
        return {stack[0]}
    if T['k'] == 'ANY':
        return None
    out = set()
    for a in T['alts']:
        ft = first_tags(a['t'])
        if ft is None:
            return None
        out |= ft
    return out


def depth(T):
    k = T['k']
    if k in RECORD_KINDS:
        return 1 + max([depth(c['t']) for c in T['comps']] or [0])
    if k in OF_KINDS:
        return 1 + depth(T['of'])
    if k == 'CHOICE':
        return 1 + max([depth(a['t']) for a in T['alts']] or [0])
    return 0


def kinds_in(T, acc=None):
    acc = set() if acc is None else acc
    acc.add(T['k'])
    k = T['k']
    if k in RECORD_KINDS:
        for c in T['comps']:
            kinds_in(c['t'], acc)
    elif k in OF_KINDS:
        kinds_in(T['of'], acc)
    elif k == 'CHOICE':
        for a in T['alts']:
            kinds_in(a['t'], acc)
    return acc


def has_tags(T):
    if T.get('tags'):
        return True
    k = T['k']
    if k in RECORD_KINDS:
        return any(has_tags(c['t']) for c in T['comps'])
    if k in OF_KINDS:
        return has_tags(T['of'])
    if k == 'CHOICE':
        return any(has_tags(a['t']) for a in T['alts'])
    return False


# ---------------------------------------------------------------- canonical form of a value

def real_to_frac(v):
    if v == 0:
        return Fraction(0)
    if v in ('inf', '-inf'):
        return v
    m, b, e = v
    if m == 0:
        return Fraction(0)
    return Fraction(m) * (Fraction(b) ** e)


def norm_real(v):
    """Normal form within the base: base 2 with odd mantissa, base 10 with mantissa not divisible by 10.
    (Exact rationals are not used: exponents may be astronomically large.)"""
    if v == 0 or v in ('inf', '-inf'):
        return v
    if len(v) == 2 and v[0] == 'float':
        return v
    m, b, e = v
    m, b, e = int(m), int(b), int(e)
    if m == 0:
        return 0
    while m % b == 0:
        m //= b
        e += 1
    return (m, b, e)


def canon(T, v):
    """Canonical comparable form of the abstract value v of type T: DEFAULT components filled in,
    SET OF as a sorted multiset, REAL as an exact rational."""
    k = T['k']
    if k == 'REAL':
        return norm_real(v)
    if k == 'BITSTRING':
        return (int(v[0]), int(v[1]))
    if k in ('INTEGER', 'ENUMERATED'):
        return int(v)
    if k == 'BOOLEAN':
        return bool(v)
    if k == 'OID':
        return tuple(int(x) for x in v)
    if k in ('OCTETSTRING', 'ANY'):
        return bytes(v)
    if k in RECORD_KINDS:
        out = {}
        for c in T['comps']:
            if c['name'] in v:
                out[c['name']] = canon(c['t'], v[c['name']])
            elif c['p'] == 'def':
                out[c['name']] = canon(c['t'], c['d'])
        extra = set(v) - {c['name'] for c in T['comps']}
        if extra:
            out['<undeclared>'] = sorted(extra)
        return out
    if k == 'SEQUENCEOF':
        return [canon(T['of'], x) for x in v]
    if k == 'SETOF':
        return sorted((canon(T['of'], x) for x in v), key=lambda c: jdump(c))
    if k == 'CHOICE':
        name, inner = v
        for a in T['alts']:
            if a['name'] == name:
                return (name, canon(a['t'], inner))
        return (name, '<undeclared>')
    return v


def same(T, a, b):
    return jdump(canon(T, a)) == jdump(canon(T, b))


# ---------------------------------------------------------------- JSON with bytes / tuples

def _enc(o):
    if isinstance(o, (bytes, bytearray)):
        return {'$b': bytes(o).hex()}
    if isinstance(o, tuple):
        return {'$t': [_enc(x) for x in o]}
    if isinstance(o, list):
        return [_enc(x) for x in o]
    if isinstance(o, dict):
        return {str(k): _enc(v) for k, v in o.items()}
    if isinstance(o, Fraction):
        return {'$q': [o.numerator, o.denominator]}
    if isinstance(o, (set, frozenset)):
        return {'$s': sorted((_enc(x) for x in o), key=lambda x: json.dumps(x, sort_keys=True))}
    if isinstance(o, float):
        return {'$f': repr(o)}
    return o


def _dec(o):
    if isinstance(o, list):
        return [_dec(x) for x in o]
    if isinstance(o, dict):
        if len(o) == 1:
            if '$b' in o:
                return bytes.fromhex(o['$b'])
            if '$t' in o:
                return tuple(_dec(x) for x in o['$t'])
            if '$q' in o:
                return Fraction(o['$q'][0], o['$q'][1])
            if '$s' in o:
                return set(_dec(x) for x in o['$s'])
            if '$f' in o:
                return float(o['$f'])
        return {k: _dec(v) for k, v in o.items()}
    return o


def jdump(o, **kw):
    return json.dumps(_enc(o), sort_keys=True, **kw)


def jload(s):
    return _dec(json.loads(s))


def to_jsonable(o):
    return _enc(o)


def from_jsonable(o):
    return _dec(o)


def show_type(T):
    """Compact ASN.1-like rendering for evidence samples."""
    k = T['k']
    pre = ''.join('[%s%s %d] %s ' % ('' if c == 'C' else {'A': 'APPLICATION ', 'P': 'PRIVATE '}[c], '', n,
                                      'IMPLICIT' if m == 'I' else 'EXPLICIT')
                  for m, c, n in reversed(T.get('tags', ())))
    if k in RECORD_KINDS:
        body = ', '.join('%s %s%s' % (c['name'], show_type(c['t']),
                                      {'req': '', 'opt': ' OPTIONAL', 'def': ' DEFAULT %r' % (c.get('d'),)}[c['p']])
                         for c in T['comps'])
        return '%s%s {%s}' % (pre, k, body)
    if k in OF_KINDS:
        return '%s%s OF %s' % (pre, k[:-2], show_type(T['of']))
    if k == 'CHOICE':
        return '%sCHOICE {%s}' % (pre, ', '.join('%s %s' % (a['name'], show_type(a['t'])) for a in T['alts']))
    return pre + k


ENC_OPTS = {'OCTETSTRING': ('utf-8', 'ascii', 'utf-16-be', 'koi8-r'), None: ('utf-8', 'utf-16-be', 'utf-32-be')}


def with_enc_opt(T, key, octet_strings=True):
    """A copy of T whose string leaves carry the library's documented `encoding=` option (about one leaf in two; the codec is a
    pure function of `key` and the leaf's position, so no random draw is spent and a case replays from its own data).
    OCTET STRING: any codec - the option governs conversion from and to text only, the wire carries the octets. Character
    strings: a codec that can spell every character the generator draws and differs from the type's own. -> (T', n leaves)"""
    import zlib
    T = from_jsonable(to_jsonable(T))
    count = [0]

    def walk(t, path):
        k = t['k']
        if k in RECORD_KINDS:
            for c in t['comps']:
                walk(c['t'], path + '.' + c['name'])
        elif k in OF_KINDS:
            walk(t['of'], path + '.*')
        elif k == 'CHOICE':
            for a in t['alts']:
                walk(a['t'], path + '.' + a['name'])
        elif ((k == 'OCTETSTRING' and octet_strings) or (k in CHAR_KINDS and k not in ('GeneralizedTime', 'UTCTime', 'ObjectDescriptor'))) \
                and not t.get('alias') and not t.get('own_typeid') and not t.get('enc_opt'):
            h = zlib.crc32(('%s|%s' % (key, path)).encode())
            if h % 2:
                return
            opts = [o for o in ENC_OPTS.get(k, ENC_OPTS[None]) if k == 'OCTETSTRING' or o != CHAR_CODEC[k]]
            t['enc_opt'] = opts[(h >> 8) % len(opts)]
            count[0] += 1
    walk(T, '')
    return T, count[0]
