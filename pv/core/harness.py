"""Seeding, sharding, collection, bucketing, known-finding attribution, replay files, evidence.

A check module provides:
    PROP, LEVEL, RULE, ASSUMPTIONS (list of str), DESIGN_REF
    def shards(tier) -> list of shard descriptors (picklable; each is passed to run_shard)
    def run_shard(desc, seed, tier, col)       generate cases, call col.case()/col.fail()
    def replay(case) -> list of failure dicts  deterministic, no Hypothesis
    FINDINGS = {finding_id: predicate(failure_dict) -> bool}
    MIN_NONTRIVIAL_FRACTION (optional)
"""
import hashlib
import json
import multiprocessing
import os
import signal
import sys
import time
import traceback

from .ir import jdump, to_jsonable, from_jsonable

VERIF = os.path.dirname(os.path.dirname(os.path.dirname(os.path.abspath(__file__))))
NPROC = int(os.environ.get('VERIF_NPROC', '16'))


def derive_seed(base, *parts):
    h = hashlib.sha256(('%d|' % base + '|'.join(str(p) for p in parts)).encode()).digest()
    return int.from_bytes(h[:8], 'big')


def assert_repo_tree():
    import pyasn1
    f = os.path.realpath(pyasn1.__file__)
    want = os.path.realpath(os.environ.get('PV_REPO', '/repo'))
    if not f.startswith(want + os.sep):
        raise HarnessError('pyasn1 imported from %s, not from %s' % (f, want))


class HarnessError(Exception):
    pass


class Hang(KeyboardInterrupt):
    """Raised by the watchdog inside whatever is running. A KeyboardInterrupt subclass: the checks' `except Exception` must not
    eat it, and Hypothesis passes KeyboardInterrupt straight through instead of replaying the example (and hanging again)."""


HANG_LIMIT = float(os.environ.get('PV_HANG_LIMIT', '150'))     # seconds without a finished case; typical cases take milliseconds


def _on_alarm(signum, frame):
    raise Hang()


def arm_watchdog(seconds=None):
    signal.signal(signal.SIGALRM, _on_alarm)
    signal.setitimer(signal.ITIMER_REAL, HANG_LIMIT if seconds is None else seconds)


def disarm_watchdog():
    signal.setitimer(signal.ITIMER_REAL, 0)


def hang_where(tb_text):
    where = ''
    for line in tb_text.splitlines():
        if '/pyasn1/' in line and 'File "' in line:
            where = line.split('/pyasn1/', 1)[1].replace('", line ', ':').replace(', in ', ':')
    return where


class Collector(object):
    MAX_SAMPLES = 5
    MAX_PER_BUCKET = 6

    def __init__(self):
        self.evaluations = 0
        self.nontrivial = set()
        self.features = {}
        self.samples = []
        self.failures = {}          # bucket -> list of failure dicts (smallest first, capped)
        self.fail_counts = {}
        self.excluded = {}
        self.budget_exhausted = False
        self.sub = {}
        self.exhaustive = None
        self.notes = []
        self.deadline = None
        self.attribute = None       # failure dict -> listed finding id or None (set by the harness)
        self.current = None         # the case being run (set by begin()), for the watchdog
        self.last_sample = None
        self.watch = False

    # ---- recording
    def begin(self, case):
        """Announce the case about to run: a hang is then reported with a replayable case."""
        self.current = case
        if self.watch:
            arm_watchdog()

    def case(self, key, nontrivial=True, features=(), sample=None, n=1):
        """One executed case. key: any jsonable identifying the case (hashed for distinctness)."""
        self.evaluations += n
        if self.watch:
            arm_watchdog()          # every recorded case re-arms the watchdog
        if sample is not None:
            self.last_sample = sample
        if nontrivial:
            h = hashlib.blake2b(key if isinstance(key, bytes) else jdump(key).encode(), digest_size=8).digest()
            self.nontrivial.add(h)
        for f in features:
            self.features[f] = self.features.get(f, 0) + 1
        if sample is not None and len(self.samples) < self.MAX_SAMPLES and nontrivial:
            self.samples.append(to_jsonable(sample))

    def count(self, name, n=1):
        self.sub[name] = self.sub.get(name, 0) + n

    def exclude(self, why, n=1):
        self.excluded[why] = self.excluded.get(why, 0) + n

    def fail(self, sub, kind, msg, case, size=None, sig='', obs=None):
        """A violation candidate. bucket = (sub, kind, sig)."""
        f = {'sub': sub, 'kind': kind, 'sig': sig, 'msg': str(msg)[:600], 'case': to_jsonable(case)}
        if obs is not None:
            f['obs'] = to_jsonable(obs)
        # (failures raised by the harness itself - a type that cannot be built, a hang - carry no check-specific case to attribute)
        fid = self.attribute(f) if self.attribute is not None and sub not in ('build', 'watchdog') else None
        f['finding'] = fid
        bucket = '%s|%s|%s|%s' % (sub, kind, sig, fid or '')
        f['bucket'] = bucket
        if size is None:
            size = len(jdump(f['case']))
        f['size'] = size
        self.fail_counts[bucket] = self.fail_counts.get(bucket, 0) + 1
        lst = self.failures.setdefault(bucket, [])
        lst.append(f)
        lst.sort(key=lambda x: x['size'])
        del lst[self.MAX_PER_BUCKET:]
        return f

    def out_of_time(self):
        if self.deadline is not None and time.time() > self.deadline:
            self.budget_exhausted = True
            return True
        return False

    # ---- merge
    def merge(self, o):
        self.evaluations += o.evaluations
        self.nontrivial |= o.nontrivial
        for k, v in o.features.items():
            self.features[k] = self.features.get(k, 0) + v
        for k, v in o.sub.items():
            self.sub[k] = self.sub.get(k, 0) + v
        for k, v in o.excluded.items():
            self.excluded[k] = self.excluded.get(k, 0) + v
        for s in o.samples:
            if len(self.samples) < self.MAX_SAMPLES:
                self.samples.append(s)
        for b, lst in o.failures.items():
            cur = self.failures.setdefault(b, [])
            cur.extend(lst)
            cur.sort(key=lambda x: x['size'])
            del cur[self.MAX_PER_BUCKET:]
        for b, n in o.fail_counts.items():
            self.fail_counts[b] = self.fail_counts.get(b, 0) + n
        self.budget_exhausted = self.budget_exhausted or o.budget_exhausted
        if o.exhaustive is not None:
            self.exhaustive = o.exhaustive if self.exhaustive is None else (self.exhaustive and o.exhaustive)
        self.notes.extend(o.notes)


def exc_sig(e):
    """(exception type, innermost pyasn1 frame) for bucketing."""
    tb = traceback.extract_tb(e.__traceback__)
    where = ''
    for fr in tb:
        if '/pyasn1/' in fr.filename:
            where = '%s:%s' % (fr.filename.split('/pyasn1/', 1)[1], fr.name)
    return '%s@%s' % (type(e).__name__, where)


def _shard_entry(args):
    modname, desc, seed, tier, budget = args
    try:
        import importlib
        mod = importlib.import_module(modname)
        assert_repo_tree()
        col = Collector()
        col.deadline = time.time() + budget if budget else None
        col.attribute = make_attributor(mod)
        col.watch = True
        arm_watchdog()
        try:
            mod.run_shard(desc, seed, tier, col)
        except Hang:
            # the library did not come back: a violation of whatever the check was looking at (termination is part of
            # every property that speaks of an outcome), reported with the case announced by begin() or the last sample
            tb = traceback.format_exc()
            disarm_watchdog()
            case = col.current if col.current is not None else {'hang_after': to_jsonable(col.last_sample)}
            col.fail('watchdog', 'hang', 'no case finished within %d s; the library was in %s' % (HANG_LIMIT, hang_where(tb) or '?'),
                     case, sig=hang_where(tb).split(':')[0])
            col.notes.append('shard stopped by the watchdog')
        disarm_watchdog()
        col.deadline = None
        col.attribute = None
        col.current = col.last_sample = None
        return ('ok', col)
    except BaseException:
        disarm_watchdog()
        return ('err', traceback.format_exc())


def load_findings(prop):
    """Findings listed for prop: [{'id', 'what', 'witnesses': [case, ...]}]. The file is read-only at run time."""
    path = os.path.join(VERIF, 'known_findings.json')
    if not os.path.exists(path):
        return []
    with open(path) as f:
        data = json.load(f)
    out = []
    for x in data.get('findings', []):
        props = x.get('properties', {})
        if prop in props:
            w = props[prop].get('witnesses')
            if w is None:
                w = [props[prop]['witness']] if 'witness' in props[prop] else []
            out.append({'id': x['id'], 'what': props[prop].get('what', x.get('what', '')), 'witnesses': w})
    return out


def make_attributor(mod):
    listed = [f['id'] for f in load_findings(mod.PROP)]
    preds = getattr(mod, 'FINDINGS', {})
    for fid in listed:
        if fid not in preds:
            raise HarnessError('finding %s has no predicate in %s' % (fid, mod.__name__))

    def attribute(failure):
        for fid in listed:
            if preds[fid](failure):
                return fid
        return None
    return attribute


def hyp_settings(max_examples, shrink=False):
    from hypothesis import settings, HealthCheck, Phase
    phases = [Phase.generate] + ([Phase.shrink] if shrink else [])
    return settings(max_examples=max_examples, database=None, deadline=None, derandomize=False,
                    report_multiple_bugs=False, phases=phases,
                    suppress_health_check=list(HealthCheck), print_blob=False)


def run_given(strategy, body, seed, max_examples, col=None):
    """Run body(example) for max_examples generated examples, deterministically from seed.
    body must not raise for property violations (it records them)."""
    from hypothesis import given, seed as hseed

    def inner(x):
        if col is not None and col.out_of_time():
            return
        try:
            body(x)
        except Exception as e:
            from . import build
            if not isinstance(e, build.BuildError) or col is None:
                raise
            # a legal type could not even be built through the public API
            col.fail('build', 'raises', 'building the type raised %s: %s | %s' % (exc_sig(e.orig), str(e.orig)[:120], jdump(e.T)[:300]),
                     {'build_only': True, 'T': e.T}, sig=exc_sig(e.orig))

    test = hseed(seed % (2 ** 63))(hyp_settings(max_examples)(given(strategy)(inner)))
    test()


def write_replay(prop, failure):
    d = os.path.join(VERIF, 'replays', prop)
    os.makedirs(d, exist_ok=True)
    h = hashlib.sha256((failure['bucket'] + jdump(failure['case'])).encode()).hexdigest()[:12]
    path = os.path.join(d, '%s.json' % h)
    with open(path, 'w') as f:
        json.dump({'property': prop, 'sub': failure['sub'], 'kind': failure['kind'], 'sig': failure['sig'],
                   'msg': failure['msg'], 'case': failure['case'], 'obs': failure.get('obs')}, f, indent=1,
                  sort_keys=True)
    return path


def main(mod, argv=None):
    import argparse
    ap = argparse.ArgumentParser()
    ap.add_argument('--tier', default=os.environ.get('VERIF_TIER', 'quick'), choices=['quick', 'thorough'])
    ap.add_argument('--replay')
    ap.add_argument('--seed', type=int, default=None)
    ap.add_argument('--no-evidence', action='store_true')
    ap.add_argument('--budget', type=float, default=None, help='wall-clock budget in seconds per shard')
    args = ap.parse_args(argv)
    prop = mod.PROP
    try:
        return _main(mod, prop, args)
    except HarnessError as e:
        print('HARNESS-ERROR property=%s %s' % (prop, e))
        return 2
    except Exception:
        traceback.print_exc()
        print('HARNESS-ERROR property=%s unexpected exception in the harness' % prop)
        return 2


def _main(mod, prop, args):
    from . import x690
    assert_repo_tree()
    x690.selftest()
    if args.replay:
        with open(args.replay) as f:
            rec = json.load(f)
        if isinstance(rec['case'], dict) and 'hang_after' in rec['case']:
            print('replay: this record only names the last case that finished before a hang; it cannot be re-run')
            print('VIOLATION property=%s replay=%s' % (prop, args.replay))
            return 1
        if isinstance(rec['case'], dict) and rec['case'].get('build_only'):
            from . import build
            try:
                build.schema(from_jsonable(rec['case']['T']))
                print('replay: case passes')
                return 0
            except build.BuildError as e:
                print('replay: build | raises | %s' % e)
                print('VIOLATION property=%s replay=%s' % (prop, args.replay))
                return 1
        arm_watchdog(2 * HANG_LIMIT)
        try:
            fails = mod.replay(from_jsonable(rec['case']) if not getattr(mod, 'RAW_CASES', False) else rec['case'])
        except Hang:
            fails = [{'sub': 'watchdog', 'kind': 'hang', 'msg': 'the case does not finish within %d s (%s)' % (
                2 * HANG_LIMIT, hang_where(traceback.format_exc()))}]
        disarm_watchdog()
        if fails:
            for fl in fails[:5]:
                print('replay: %s | %s | %s' % (fl['sub'], fl['kind'], fl['msg']))
            print('VIOLATION property=%s replay=%s' % (prop, args.replay))
            return 1
        print('replay: case passes')
        return 0

    seed = args.seed if args.seed is not None else int(os.environ.get('VERIF_SEED', '1'))
    tier = args.tier
    t0 = time.time()
    budget = args.budget
    if budget is None:
        budget = getattr(mod, 'BUDGET', {}).get(tier)
    descs = mod.shards(tier)
    jobs = [(mod.__name__, d, derive_seed(seed, prop, i), tier, budget) for i, d in enumerate(descs)]
    total = Collector()
    if NPROC <= 1 or len(jobs) == 1:
        results = [_shard_entry(j) for j in jobs]
    else:
        ctx = multiprocessing.get_context('fork')
        with ctx.Pool(min(NPROC, len(jobs))) as pool:
            results = pool.map(_shard_entry, jobs, chunksize=1)
    for st, r in results:
        if st != 'ok':
            sys.stderr.write(r)
            raise HarnessError('a shard crashed (harness error, not a violation)')
        total.merge(r)

    # ---- known findings
    listed = load_findings(prop)
    preds = getattr(mod, 'FINDINGS', {})
    raw = getattr(mod, 'RAW_CASES', False)
    active = []
    lines = []
    for fd in listed:
        fid = fd['id']
        pred = preds.get(fid)
        if pred is None:
            raise HarnessError('finding %s has no predicate in %s' % (fid, mod.__name__))
        still = False
        for wit in fd['witnesses']:
            wcase = wit if raw else from_jsonable(wit)
            for fl in mod.replay(wcase):
                if pred(fl):
                    still = True
                    break
            if still:
                break
        if still:
            active.append(fid)
            lines.append('KNOWN-FINDING: property=%s %s: %s' % (prop, fid, fd['what']))
    attributed = {}
    violations = []
    for bucket in sorted(total.failures):
        fl = total.failures[bucket][0]
        if fl.get('finding') in active:
            attributed[fl['finding']] = attributed.get(fl['finding'], 0) + total.fail_counts.get(bucket, 0)
        else:
            violations.append(fl)
    for ln in lines:
        print(ln)
    rc = 0
    vio_out = []
    for fl in violations:
        path = write_replay(prop, fl)
        rel = os.path.relpath(path, VERIF)
        print('violation: %s | %s | %s' % (fl['sub'], fl['kind'], fl['msg'][:300]))
        print('VIOLATION property=%s replay=%s' % (prop, rel))
        vio_out.append({'bucket': fl['bucket'], 'replay': rel, 'msg': fl['msg'][:300],
                        'count': total.fail_counts.get(fl['bucket'], 0)})
        rc = 1

    wall = time.time() - t0
    nontriv = len(total.nontrivial)
    floor = getattr(mod, 'MIN_NONTRIVIAL', {}).get(tier, 2)
    ev = {
        'property_id': prop, 'tier': tier, 'seed': seed, 'level': mod.LEVEL,
        'coverage': {
            'evaluations': total.evaluations,
            'distinct_nontrivial': nontriv,
            'rule': mod.RULE,
            'samples': total.samples[:Collector.MAX_SAMPLES],
            'features': dict(sorted(total.features.items())),
            'sub_checks': dict(sorted(total.sub.items())),
            'excluded': dict(sorted(total.excluded.items())),
            'attributed_to_known_findings': attributed,
            'active_known_findings': active,
            'failure_buckets': {b: total.fail_counts[b] for b in sorted(total.fail_counts)},
            'budget_exhausted': total.budget_exhausted,
            'shards': len(jobs),
        },
        'assumptions': list(getattr(mod, 'ASSUMPTIONS', [])),
        'wall_s': round(wall, 2),
        'violations': len(violations),
    }
    if total.exhaustive is not None:
        ev['coverage']['exhaustive'] = bool(total.exhaustive)
    if total.notes:
        ev['coverage']['notes'] = total.notes[:20]
    if vio_out:
        ev['coverage']['violations'] = vio_out
    if not args.no_evidence:
        os.makedirs(os.path.join(VERIF, 'evidence'), exist_ok=True)
        with open(os.path.join(VERIF, 'evidence', '%s.json' % prop), 'w') as f:
            json.dump(ev, f, indent=1, sort_keys=True)
    print('%s tier=%s seed=%d evaluations=%d distinct_nontrivial=%d buckets=%d attributed=%s violations=%d wall=%.1fs%s'
          % (prop, tier, seed, total.evaluations, nontriv, len(total.failures), attributed, len(violations), wall,
             ' (budget exhausted)' if total.budget_exhausted else ''))
    if rc == 0 and (total.evaluations < 1 or nontriv < floor):
        raise HarnessError('only %d distinct non-trivial cases (floor %d): generator regression' % (nontriv, floor))
    return rc
