"""Input-feature predicates shared by the known-finding attribution rules of several checks.

A finding is attributed to a failing case only if (a) the case has the triggering feature and
(b) the check-specific defect model confirms the misbehaviour (see each check's FINDINGS).
"""
from . import ir

# primitive types whose pyasn1 encoder declares supportIndefLenMode = False
NONINDEF_PRIMS = ('BOOLEAN', 'INTEGER', 'ENUMERATED', 'NULL', 'OID', 'REAL')


def present_nodes(T, v):
    """Yield (T_node, v_node) for every node of the value that is actually present."""
    yield T, v
    k = T['k']
    if k in ir.RECORD_KINDS:
        for c in T['comps']:
            if c['name'] in v:
                for x in present_nodes(c['t'], v[c['name']]):
                    yield x
    elif k in ir.OF_KINDS:
        for item in v:
            for x in present_nodes(T['of'], item):
                yield x
    elif k == 'CHOICE':
        name, inner = v
        for a in T['alts']:
            if a['name'] == name:
                for x in present_nodes(a['t'], inner):
                    yield x


def type_nodes(T):
    yield T
    k = T['k']
    if k in ir.RECORD_KINDS:
        for c in T['comps']:
            for x in type_nodes(c['t']):
                yield x
    elif k in ir.OF_KINDS:
        for x in type_nodes(T['of']):
            yield x
    elif k == 'CHOICE':
        for a in T['alts']:
            for x in type_nodes(a['t']):
                yield x


def has_explicit(t):
    return any(m == 'E' for m, _c, _n in t.get('tags', ()))


def explicit_over_nonindef_prim(T, v):
    """An EXPLICIT tag directly over BOOLEAN/INTEGER/ENUMERATED/NULL/OID/REAL that is present in v."""
    return any(t['k'] in NONINDEF_PRIMS and has_explicit(t) for t, _x in present_nodes(T, v))


def tagged_any_present(T, v):
    return any(t['k'] == 'ANY' and t.get('tags') for t, _x in present_nodes(T, v))


def any_present(T, v):
    return any(t['k'] == 'ANY' for t, _x in present_nodes(T, v))


def any_with_indef_content(T, v):
    for t, x in present_nodes(T, v):
        if t['k'] == 'ANY' and len(x) >= 2:
            # length octet of the first TLV
            i = 1
            if x[0] & 0x1f == 0x1f:
                while i < len(x) and x[i] & 0x80:
                    i += 1
                i += 1
            if i < len(x) and x[i] == 0x80:
                return True
    return False


def octet_len(t, x):
    k = t['k']
    if k == 'OCTETSTRING':
        return len(x)
    if k == 'BITSTRING':
        return (x[0] + 7) // 8
    if k in ir.CHAR_KINDS:
        return len(x.encode(ir.codec_of(t)))
    return None


def max_string_octets(T, v, kinds=None):
    best = 0
    for t, x in present_nodes(T, v):
        if t['k'] in ir.STRING_KINDS and (kinds is None or t['k'] in kinds):
            best = max(best, octet_len(t, x))
    return best


def real10_present(T, v):
    return any(t['k'] == 'REAL' and isinstance(x, tuple) and x[1] == 10 for t, x in present_nodes(T, v))


def absent_optional_empty_record(T, v):
    """An OPTIONAL component, absent from v, whose type is a SEQUENCE/SET without mandatory members."""
    for t, x in present_nodes(T, v):
        if t['k'] in ir.RECORD_KINDS:
            for c in t['comps']:
                if c['p'] == 'opt' and c['name'] not in x and c['t']['k'] in ir.RECORD_KINDS \
                        and all(cc['p'] != 'req' for cc in c['t']['comps']):
                    return True
    return False


def present_empty_optional_constructed(T, v):
    """An OPTIONAL component present in v whose value is an empty SEQUENCE/SET/SEQUENCE OF/SET OF
    (or a record whose encoding is empty because everything in it is absent / default)."""
    for t, x in present_nodes(T, v):
        if t['k'] in ir.RECORD_KINDS:
            for c in t['comps']:
                if c['p'] == 'opt' and c['name'] in x and c['t']['k'] in ir.CONSTRUCTED_KINDS:
                    if _encodes_empty(c['t'], x[c['name']]):
                        return True
    return False


def _encodes_empty(t, x):
    if t['k'] in ir.OF_KINDS:
        return len(x) == 0
    if t['k'] in ir.RECORD_KINDS:
        for c in t['comps']:
            if c['name'] in x:
                if c['p'] == 'def' and ir.same(c['t'], x[c['name']], c['d']):
                    continue
                return False
        return True
    return False


def strip_empty_optional_records(T, v, of_too=False):
    """v with every OPTIONAL component removed whose type is a record without mandatory members (of_too: or a
    SEQUENCE OF / SET OF) and whose value has an empty encoding: 'absent' and 'present but empty' are
    identified (findings F03 / F05)."""
    k = T['k']
    if k in ir.RECORD_KINDS:
        out = {}
        for c in T['comps']:
            if c['name'] not in v:
                continue
            x = strip_empty_optional_records(c['t'], v[c['name']], of_too)
            ck = c['t']['k']
            if c['p'] == 'opt' and _encodes_empty(c['t'], x) and (
                    (ck in ir.RECORD_KINDS and all(cc['p'] != 'req' for cc in c['t']['comps'])) or
                    (of_too and ck in ir.OF_KINDS)):
                continue
            out[c['name']] = x
        return out
    if k in ir.OF_KINDS:
        return [strip_empty_optional_records(T['of'], x, of_too) for x in v]
    if k == 'CHOICE':
        name, inner = v
        for a in T['alts']:
            if a['name'] == name:
                return (name, strip_empty_optional_records(a['t'], inner, of_too))
    return v


def map_values(T, v, fn):
    """Rebuild v with fn(T_node, v_node) applied to every scalar node."""
    k = T['k']
    if k in ir.RECORD_KINDS:
        return {c['name']: map_values(c['t'], v[c['name']], fn) for c in T['comps'] if c['name'] in v}
    if k in ir.OF_KINDS:
        return [map_values(T['of'], x, fn) for x in v]
    if k == 'CHOICE':
        name, inner = v
        for a in T['alts']:
            if a['name'] == name:
                return (name, map_values(a['t'], inner, fn))
    return fn(T, v)


def case_of(failure):
    return ir.from_jsonable(failure['case'])


# ------------------------------------------------------------------ neutralising transformations
# Each removes one finding's triggering feature from (T, v) and keeps everything else, in particular
# the outermost tag of every node (so the distinct-tag rules stay satisfied).

def _map_type(T, fn):
    """Deep copy of T with fn applied to every node copy (post-order)."""
    t = dict(T)
    k = T['k']
    if k in ir.RECORD_KINDS:
        t['comps'] = [dict(c, t=_map_type(c['t'], fn)) for c in T['comps']]
    elif k in ir.OF_KINDS:
        t['of'] = _map_type(T['of'], fn)
    elif k == 'CHOICE':
        t['alts'] = [dict(a, t=_map_type(a['t'], fn)) for a in T['alts']]
    t['tags'] = [list(x) for x in T.get('tags', ())]
    return fn(t) or t


def _collapse_tags(t):
    stack, _hb = ir.tag_stack(t)
    if stack and stack[0][0] != 'U':
        t['tags'] = [['I', stack[0][0], stack[0][1]]]
    else:
        t['tags'] = []
    return t


def neutralise_explicit_prims(T, v):
    """EXPLICIT tags over BOOLEAN/INTEGER/ENUMERATED/NULL/OID/REAL become one IMPLICIT tag (same outer tag)."""
    def fn(t):
        if t['k'] in NONINDEF_PRIMS and has_explicit(t):
            return _collapse_tags(t)
    return _map_type(T, fn), v


def neutralise_tagged_any(T, v):
    """A tagged ANY becomes an OCTET STRING with the same outermost tag (IMPLICIT)."""
    def fn(t):
        if t['k'] == 'ANY' and t.get('tags'):
            t['k'] = 'OCTETSTRING'
            return _collapse_tags(t)
    return _map_type(T, fn), v


def neutralise_real10(T, v):
    def fn(t, x):
        if t['k'] == 'REAL' and isinstance(x, tuple) and x[1] == 10:
            return (x[0], 2, x[2])
        return x
    T2 = _map_type(T, lambda t: None)
    for t in type_nodes(T2):
        if t['k'] in ir.RECORD_KINDS:
            for c in t['comps']:
                if c['p'] == 'def':
                    c['d'] = fn(c['t'], c['d'])
    return T2, map_values(T2, v, fn)


def by_neutralising(run_case, feature, transform, subs=None, kinds=None, extra=None, others=()):
    """Attribution rule: the case has the feature, and the failing (sub, kind) disappears when the feature - and
    nothing else - is removed from the case by `transform`."""
    def pred(failure):
        if subs is not None and failure['sub'] not in subs:
            return False
        if kinds is not None and failure['kind'] not in kinds:
            return False
        case = case_of(failure)
        if extra is not None and not extra(case):
            return False
        if not feature(case['T'], case['v']):
            return False
        T2, v2 = transform(case['T'], case['v'])
        c2 = dict(case, T=T2, v=v2)
        for f in run_case(c2):
            if f['sub'] == failure['sub'] and f['kind'] == failure['kind']:
                # still failing: only acceptable if another listed finding explains what is left
                f2 = dict(f, case=ir.to_jsonable(c2), obs=ir.to_jsonable(f.get('obs')))
                if not any(o(f2) for o in others):
                    return False
        return True
    return pred


# ------------------------------------------------------------------ model of finding F05 (ifNotEmpty)

MISSING = object()


def cer_drop(T, v, flag=False):
    """What the CER/DER encoders actually write for v: the `ifNotEmpty` option, set for an OPTIONAL component,
    stays in force for everything nested below it (until the next record component resets it), and makes every
    constructed element with empty contents vanish. -> the value denoted by the output, or MISSING."""
    k = T['k']
    if k in ir.RECORD_KINDS:
        out = {}
        for c in T['comps']:
            if c['name'] in v:
                if c['p'] == 'def' and ir.same(c['t'], v[c['name']], c['d']):
                    # (recognised as the DEFAULT - by complete encodings - and left out: the reader restores it whole)
                    out[c['name']] = v[c['name']]
                    continue
                x = cer_drop(c['t'], v[c['name']], c['p'] == 'opt')
                if x is not MISSING:
                    out[c['name']] = x
        if flag and _encodes_empty(T, out):
            return MISSING
        return out
    if k in ir.OF_KINDS:
        out = [x for x in (cer_drop(T['of'], e, flag) for e in v) if x is not MISSING]
        if flag and not out:
            return MISSING
        return out
    if k == 'CHOICE':
        name, inner = v
        for a in T['alts']:
            if a['name'] == name:
                x = cer_drop(a['t'], inner, flag)
                return MISSING if x is MISSING else (name, x)
    return v


def well_formed(T, v):
    """Every mandatory component present (used on the output of cer_drop)."""
    k = T['k']
    if v is MISSING:
        return False
    if k in ir.RECORD_KINDS:
        return all((c['name'] in v and well_formed(c['t'], v[c['name']])) if c['p'] == 'req'
                   else (c['name'] not in v or well_formed(c['t'], v[c['name']])) for c in T['comps'])
    if k in ir.OF_KINDS:
        return all(well_formed(T['of'], x) for x in v)
    if k == 'CHOICE':
        name, inner = v
        return any(a['name'] == name and well_formed(a['t'], inner) for a in T['alts'])
    return True


def by_neutralising_all(run_case, rules, subs=None, kinds=None, others=()):
    """rules: [(finding id, feature(T, v), transform(T, v))].  -> {finding id: predicate}.
    A failure is attributed to a rule's finding when the case has that rule's feature and the failing (sub, kind)
    disappears - or is explained by one of `others` - once the features of ALL rules are removed together
    (several listed defects often meet in one generated case)."""
    def make(fid, feature):
        def pred(failure):
            if subs is not None and failure['sub'] not in subs:
                return False
            if kinds is not None and failure['kind'] not in kinds:
                return False
            case = case_of(failure)
            T, v = case['T'], case['v']
            if not feature(T, v):
                return False
            for _fid, feat, transform in rules:
                if feat(T, v):
                    T, v = transform(T, v)
            c2 = dict(case, T=T, v=v)
            for f in run_case(c2):
                if f['sub'] == failure['sub'] and f['kind'] == failure['kind']:
                    f2 = dict(f, case=ir.to_jsonable(c2), obs=ir.to_jsonable(f.get('obs')))
                    if not any(o(f2) for o in others):
                        return False
            return True
        return pred
    return {fid: make(fid, feature) for fid, feature, _t in rules}


def nested_bitstring_segments(T, enc):
    """The encoding holds a constructed BIT STRING with a constructed segment (known finding F08 region)."""
    from . import x690
    try:
        _v, tr = x690.read_traced(T, enc)
    except x690.RefError:
        return False
    return any(r['T']['k'] == 'BITSTRING' and any(c for c, _l in r.get('segments', ())) for r in tr)


def f09_region(T, encs):
    """Inputs on which the caching wrapper's position renumbering (known finding F09) bites once more than
    io.DEFAULT_BUFFER_SIZE octets went through a non-seekable stream: a definite-length element decoded through
    a nested decoder call - constructed elements and untagged CHOICE."""
    from . import x690
    if 'CHOICE' in ir.kinds_in(T):
        return True
    for e in encs:
        for top in x690.walk_all(e):
            if any(n.con and not n.indefinite for n in x690.nodes(top)):
                return True
    return False
