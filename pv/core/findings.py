"""Input-feature predicates shared by the known-finding attribution rules of several checks.

A finding is attributed to a failing case only if (a) the case has the triggering feature and
(b) the check-specific defect model confirms the misbehaviour (see each check's FINDINGS).
"""
from . import ir

# primitive types whose pyasn1 encoder declares supportIndefLenMode = False
NONINDEF_PRIMS = ('BOOLEAN', 'INTEGER', 'ENUMERATED', 'NULL', 'OID', 'REAL')


def present_nodes(T, v):
    """Yield (T_node, v_node) for every node of the value that is actually present."""
    yield T, v
    k = T['k']
    if k in ir.RECORD_KINDS:
        for c in T['comps']:
            if c['name'] in v:
                for x in present_nodes(c['t'], v[c['name']]):
                    yield x
    elif k in ir.OF_KINDS:
        for item in v:
            for x in present_nodes(T['of'], item):
                yield x
    elif k == 'CHOICE':
        name, inner = v
        for a in T['alts']:
            if a['name'] == name:
                for x in present_nodes(a['t'], inner):
                    yield x


def type_nodes(T):
    yield T
    k = T['k']
    if k in ir.RECORD_KINDS:
        for c in T['comps']:
            for x in type_nodes(c['t']):
                yield x
    elif k in ir.OF_KINDS:
        for x in type_nodes(T['of']):
            yield x
    elif k == 'CHOICE':
        for a in T['alts']:
            for x in type_nodes(a['t']):
                yield x


def has_explicit(t):
    return any(m == 'E' for m, _c, _n in t.get('tags', ()))


def explicit_over_nonindef_prim(T, v):
    """An EXPLICIT tag directly over BOOLEAN/INTEGER/ENUMERATED/NULL/OID/REAL that is present in v."""
    return any(t['k'] in NONINDEF_PRIMS and has_explicit(t) for t, _x in present_nodes(T, v))


def tagged_any_present(T, v):
    return any(t['k'] == 'ANY' and t.get('tags') for t, _x in present_nodes(T, v))


def any_present(T, v):
    return any(t['k'] == 'ANY' for t, _x in present_nodes(T, v))


def any_with_indef_content(T, v):
    for t, x in present_nodes(T, v):
        if t['k'] == 'ANY' and len(x) >= 2:
            # length octet of the first TLV
            i = 1
            if x[0] & 0x1f == 0x1f:
                while i < len(x) and x[i] & 0x80:
                    i += 1
                i += 1
            if i < len(x) and x[i] == 0x80:
                return True
    return False


def octet_len(t, x):
    k = t['k']
    if k == 'OCTETSTRING':
        return len(x)
    if k == 'BITSTRING':
        return (x[0] + 7) // 8
    if k in ir.CHAR_KINDS:
        return len(x.encode(ir.CHAR_CODEC[k]))
    return None


def max_string_octets(T, v, kinds=None):
    best = 0
    for t, x in present_nodes(T, v):
        if t['k'] in ir.STRING_KINDS and (kinds is None or t['k'] in kinds):
            best = max(best, octet_len(t, x))
    return best


def real10_present(T, v):
    return any(t['k'] == 'REAL' and isinstance(x, tuple) and x[1] == 10 for t, x in present_nodes(T, v))


def absent_optional_empty_record(T, v):
    """An OPTIONAL component, absent from v, whose type is a SEQUENCE/SET without mandatory members."""
    for t, x in present_nodes(T, v):
        if t['k'] in ir.RECORD_KINDS:
            for c in t['comps']:
                if c['p'] == 'opt' and c['name'] not in x and c['t']['k'] in ir.RECORD_KINDS \
                        and all(cc['p'] != 'req' for cc in c['t']['comps']):
                    return True
    return False


def present_empty_optional_constructed(T, v):
    """An OPTIONAL component present in v whose value is an empty SEQUENCE/SET/SEQUENCE OF/SET OF
    (or a record whose encoding is empty because everything in it is absent / default)."""
    for t, x in present_nodes(T, v):
        if t['k'] in ir.RECORD_KINDS:
            for c in t['comps']:
                if c['p'] == 'opt' and c['name'] in x and c['t']['k'] in ir.CONSTRUCTED_KINDS:
                    if _encodes_empty(c['t'], x[c['name']]):
                        return True
    return False


def _encodes_empty(t, x):
    if t['k'] in ir.OF_KINDS:
        return len(x) == 0
    if t['k'] in ir.RECORD_KINDS:
        for c in t['comps']:
            if c['name'] in x:
                if c['p'] == 'def' and ir.same(c['t'], x[c['name']], c['d']):
                    continue
                return False
        return True
    return False


def strip_empty_optional_records(T, v):
    """v with every OPTIONAL component removed whose type is a record without mandatory members and whose
    value has an empty encoding - 'absent' and 'present but empty' are identified (finding F03)."""
    k = T['k']
    if k in ir.RECORD_KINDS:
        out = {}
        for c in T['comps']:
            if c['name'] not in v:
                continue
            x = strip_empty_optional_records(c['t'], v[c['name']])
            if c['p'] == 'opt' and c['t']['k'] in ir.RECORD_KINDS and \
                    all(cc['p'] != 'req' for cc in c['t']['comps']) and _encodes_empty(c['t'], x):
                continue
            out[c['name']] = x
        return out
    if k in ir.OF_KINDS:
        return [strip_empty_optional_records(T['of'], x) for x in v]
    if k == 'CHOICE':
        name, inner = v
        for a in T['alts']:
            if a['name'] == name:
                return (name, strip_empty_optional_records(a['t'], inner))
    return v


def map_values(T, v, fn):
    """Rebuild v with fn(T_node, v_node) applied to every scalar node."""
    k = T['k']
    if k in ir.RECORD_KINDS:
        return {c['name']: map_values(c['t'], v[c['name']], fn) for c in T['comps'] if c['name'] in v}
    if k in ir.OF_KINDS:
        return [map_values(T['of'], x, fn) for x in v]
    if k == 'CHOICE':
        name, inner = v
        for a in T['alts']:
            if a['name'] == name:
                return (name, map_values(a['t'], inner, fn))
    return fn(T, v)


def case_of(failure):
    return ir.from_jsonable(failure['case'])
