"""Byte- and TLV-level mutators and the structural alphabet for short exhaustive inputs (C08, C10, C11)."""
import sys

from . import x690

# octets that matter structurally: universal tags in primitive / constructed form, high-tag-number escape,
# context / application tags, end-of-contents, and length octets around the short / long / indefinite forms
ALPHABET = [0x00, 0x01, 0x02, 0x03, 0x04, 0x05, 0x06, 0x09, 0x0a, 0x0c, 0x13, 0x17, 0x18, 0x1e,
            0x1f, 0x23, 0x24, 0x30, 0x31, 0x3f, 0x7f, 0x80, 0x81, 0x82, 0x84, 0xa0, 0xbf, 0xff]


def _header_positions(b):
    """[(identifier start, length start, contents start, end)] of every TLV that parses."""
    out = []
    try:
        for top in x690.walk_all(b):
            for n in x690.nodes(top):
                # locate the first length octet: after the identifier octets
                p = n.start + 1
                if b[n.start] & 0x1f == 0x1f:
                    while p < n.hdr_end and b[p] & 0x80:
                        p += 1
                    p += 1
                out.append((n.start, p, n.hdr_end, n.end))
    except (x690.RefError, IndexError):
        pass
    return out


def mutate(d, b):
    """One or two random damages to b (d: gen.D). Always returns bytes."""
    b = bytearray(b)
    for _ in range(d.pick([1, 1, 1, 2])):
        if not b:
            b = bytearray(d.bytes(d.int(1, 4)))
            continue
        r = d.int(0, 14)
        i = d.int(0, len(b) - 1)
        hdrs = _header_positions(bytes(b)) if r >= 6 else []
        if r >= 12:
            # one element overwritten by a copy of one of its siblings (a member sent twice, another one missing)
            try:
                fams = [n.kids for top in x690.walk_all(bytes(b)) for n in x690.nodes(top) if n.con and len(n.kids) >= 2]
            except (x690.RefError, IndexError):
                fams = []
            if fams:
                kids = fams[d.int(0, len(fams) - 1)]
                x = d.int(0, len(kids) - 1)
                y = (x + 1 + d.int(0, len(kids) - 2)) % len(kids)
                src, dst = kids[x], kids[y]
                data = bytes(b)

                def rebuild(n):
                    if n is dst:
                        return data[src.start:src.end]
                    if not n.con:
                        return data[n.start:n.end]
                    body = b''.join(rebuild(k) for k in n.kids)
                    return x690.ident(n.cls, True, n.num) + x690.length(len(body)) + body      # lengths follow the new contents
                try:
                    b = bytearray(b''.join(rebuild(top) for top in x690.walk_all(data)))
                    continue
                except (x690.RefError, IndexError, RecursionError):
                    pass
            r = 11
        if r == 0:
            b[i] ^= 1 << d.int(0, 7)
        elif r == 1:
            b.insert(i, d.pick(ALPHABET))
        elif r == 2:
            del b[i]
        elif r == 3:
            b[i:i] = b[i:i + d.int(1, 4)]
        elif r == 4:
            del b[i:]                         # truncation
        elif r == 5:
            j = d.int(0, len(b) - 1)
            b = b[:i] + b[j:]                 # splice
        elif hdrs:
            ids, ls, cs, end = hdrs[d.int(0, len(hdrs) - 1)]
            if r == 6:
                b[ids] = d.pick(ALPHABET)                         # identifier rewrite
            elif r == 7:
                b[ids] ^= 0x20                                    # primitive <-> constructed
            elif r == 8:
                b[ls] = d.pick([0, 0x7f, 0x80, 0x81, 0x84, 0xff, (b[ls] + 1) & 0xff, (b[ls] - 1) & 0xff])
            elif r == 9:
                # absurd lengths: 16 MiB (kept small enough that a reader which pre-allocates stays harmless), 2**64 - 1
                r9 = d.int(0, 2)
                b[ls:cs] = (bytes([0x84, 0x00, 0xff, 0xff, 0xff]) if r9 == 0 else bytes([0x88]) + b'\xff' * 8 if r9 == 1
                            else bytes([0x88]) + (sys.maxsize - d.int(0, 12)).to_bytes(8, 'big'))       # at the edge of what read() takes
            elif r == 10:
                b[cs:end] = b''                                   # empty contents, header kept
            else:
                b[end:end] = b[ids:end]                           # duplicate the element
        else:
            b[i] = d.pick(ALPHABET)
    return bytes(b)
