"""Stream doubles that own the arrival schedule (DESIGN.md 2.4).

Read protocol the library documents (codec/streaming.py readFromStream): read(n) -> None = no data yet,
b'' = end of stream, fewer than n octets = partial data (the library seeks back and reports underrun).
"""
import io
import os


class Counters(object):
    def __init__(self):
        self.reads = 0
        self.seeks = 0
        self.starved = False      # a read since the last reset wanted more than was available
        self.handed = 0           # octets handed out (non-seekable doubles)

    def reset_step(self):
        self.starved = False


class HorizonBytesIO(io.BytesIO):
    """All octets are in the buffer; reads are limited to a moving horizon. At the horizon: None while the stream
    is open, b'' once closed (the idiom of the suite's own non-blocking test, generalised)."""
    def __init__(self, data):
        io.BytesIO.__init__(self, data)
        self.horizon = 0
        self.eof = False
        self.c = Counters()
        self._total = len(data)

    def feed(self, n):
        self.horizon = min(self._total, self.horizon + n)

    def finish(self):
        self.eof = True

    def read(self, n=-1):
        self.c.reads += 1
        pos = self.tell()
        avail = self.horizon - pos
        if avail <= 0:
            if self.eof:
                return b''
            self.c.starved = True
            return None
        if n is None or n < 0 or n > avail:
            if n is not None and n > avail:
                self.c.starved = True
            n = avail
        return io.BytesIO.read(self, n)

    def seek(self, *a):
        self.c.seeks += 1
        return io.BytesIO.seek(self, *a)


class BytesIOFeed(io.BytesIO):
    """An io.BytesIO SUBCLASS fed over time (the idiom of the suite's own non-blocking test): None while open and drained, b''
    after close, short reads when less is there than asked for."""
    def __init__(self):
        io.BytesIO.__init__(self)
        self.eof = False
        self.c = Counters()

    def feed_bytes(self, data):
        pos = self.tell()
        self.seek(0, os.SEEK_END)
        self.write(data)
        self.seek(pos)

    def finish(self):
        self.eof = True

    def read(self, n=-1):
        self.c.reads += 1
        got = io.BytesIO.read(self, n)
        if not got and (n is None or n != 0):
            if self.eof:
                return b''
            self.c.starved = True
            return None
        if n is not None and n > len(got):
            self.c.starved = True
        return got


class SeekableFeed(io.RawIOBase):
    """Seekable, not a BytesIO; data appended over time; None while open and empty, b'' after close."""
    def __init__(self, max_read=None):
        io.RawIOBase.__init__(self)
        self.buf = bytearray()
        self.pos = 0
        self.eof = False
        self.c = Counters()
        self.max_read = max_read          # a raw stream may hand out less than asked for although more is there

    def feed_bytes(self, data):
        self.buf += data

    def finish(self):
        self.eof = True

    def readable(self):
        return True

    def seekable(self):
        return True

    def tell(self):
        return self.pos

    def seek(self, off, whence=os.SEEK_SET):
        self.c.seeks += 1
        if whence == os.SEEK_SET:
            self.pos = off
        elif whence == os.SEEK_CUR:
            self.pos += off
        else:
            self.pos = len(self.buf) + off
        if self.pos < 0:
            self.pos = 0
        return self.pos

    def read(self, n=-1):
        if self.closed:
            raise ValueError('I/O operation on closed file')       # as any real stream does
        self.c.reads += 1
        avail = len(self.buf) - self.pos
        if avail <= 0:
            if self.eof:
                return b''
            self.c.starved = True
            return None
        if n is None or n < 0 or n > avail:
            if n is not None and n > avail:
                self.c.starved = True
            n = avail
        if self.max_read is not None and n > self.max_read:
            self.c.starved = True         # the reader sees a short read
            n = self.max_read
        out = bytes(self.buf[self.pos:self.pos + n])
        self.pos += n
        return out


def _feed_readinto(self, b):
    data = self.read(len(b))
    if data is None:
        return None
    b[:len(data)] = data
    return len(data)


SeekableFeed.readinto = _feed_readinto


class PipeFeed(io.RawIOBase):
    """Non-seekable (goes through the library's CachingStreamWrapper); None while open and empty, b'' after
    close; short reads when fewer octets are queued than asked for."""
    def __init__(self, none_when_empty=True, max_read=None):
        io.RawIOBase.__init__(self)
        self.q = bytearray()
        self.eof = False
        self.c = Counters()
        self.none_when_empty = none_when_empty
        self.max_read = max_read

    def feed_bytes(self, data):
        self.q += data

    def finish(self):
        self.eof = True

    def readable(self):
        return True

    def seekable(self):
        return False

    def read(self, n=-1):
        if self.closed:
            raise ValueError('I/O operation on closed file')       # as any real stream does
        self.c.reads += 1
        if not self.q:
            if self.eof:
                return b''
            self.c.starved = True
            return None if self.none_when_empty else b''
        if n is None or n < 0 or n > len(self.q):
            if n is not None and n > len(self.q):
                self.c.starved = True
            n = len(self.q)
        if self.max_read is not None and n > self.max_read:
            self.c.starved = True
            n = self.max_read
        out = bytes(self.q[:n])
        del self.q[:n]
        self.c.handed += len(out)
        return out


class WholePipe(io.RawIOBase):
    """Non-seekable blocking stream over fixed bytes: every read returns everything asked for (or what is left)."""
    def __init__(self, data, max_read=None):
        io.RawIOBase.__init__(self)
        self.data = bytes(data)
        self.pos = 0
        self.c = Counters()
        self.max_read = max_read

    def readable(self):
        return True

    def seekable(self):
        return False

    def read(self, n=-1):
        if self.closed:
            raise ValueError('I/O operation on closed file')       # as any real stream does
        self.c.reads += 1
        left = len(self.data) - self.pos
        if n is None or n < 0 or n > left:
            n = left
        if self.max_read is not None and n > self.max_read:
            n = self.max_read
        out = self.data[self.pos:self.pos + n]
        self.pos += n
        self.c.handed += len(out)
        return out

    def readinto(self, buf):
        out = self.read(len(buf))
        buf[:len(out)] = out
        return len(out)


def partitions(n):
    """All compositions of n (2^(n-1) of them) as lists of chunk sizes."""
    if n == 0:
        yield []
        return
    for mask in range(1 << (n - 1)):
        out = []
        cur = 1
        for i in range(n - 1):
            if mask >> i & 1:
                out.append(cur)
                cur = 1
            else:
                cur += 1
        out.append(cur)
        yield out


def cuts_to_sizes(n, cuts):
    cuts = sorted(set(c for c in cuts if 0 < c < n))
    sizes = []
    prev = 0
    for c in cuts + [n]:
        sizes.append(c - prev)
        prev = c
    return sizes


class _Clocked(object):
    """Arrival driven by the reader's own clock: every read() call is one tick, burst i arrives at tick arrivals[i], the end
    of the stream is signalled at tick eof_tick (and not before the last burst). Data therefore may turn up between two
    reads of ONE decoder step - something a schedule owned by the caller of next() cannot produce."""
    def _init_clock(self, data, sizes, arrivals, eof_tick):
        self.clock = 0
        self.pending = []
        pos = 0
        for n, t in zip(sizes, arrivals):
            self.pending.append((t, bytes(data[pos:pos + n])))
            pos += n
        self.eof_tick = max([eof_tick] + list(arrivals))

    def _tick(self):
        self.clock += 1
        while self.pending and self.pending[0][0] <= self.clock:
            self.feed_bytes(self.pending.pop(0)[1])
        if not self.pending and self.clock >= self.eof_tick:
            self.finish()


class ClockSeekable(_Clocked, SeekableFeed):
    def __init__(self, data, sizes, arrivals, eof_tick):
        SeekableFeed.__init__(self)
        self._init_clock(data, sizes, arrivals, eof_tick)

    def read(self, n=-1):
        self._tick()
        return SeekableFeed.read(self, n)


class ClockPipe(_Clocked, PipeFeed):
    def __init__(self, data, sizes, arrivals, eof_tick):
        PipeFeed.__init__(self)
        self._init_clock(data, sizes, arrivals, eof_tick)

    def read(self, n=-1):
        self._tick()
        return PipeFeed.read(self, n)


class BufferedFeed(io.BufferedReader):
    """io.BufferedReader over a seekable non-blocking raw stream that is fed over time (what an application gets from
    open(..., 'rb') on a growing file put into non-blocking mode, or builds around its own raw stream)."""
    def __init__(self, buffer_size=io.DEFAULT_BUFFER_SIZE):
        self.rawfeed = SeekableFeed()
        io.BufferedReader.__init__(self, self.rawfeed, buffer_size)
        self.c = self.rawfeed.c

    def feed_bytes(self, data):
        self.rawfeed.feed_bytes(data)

    def finish(self):
        self.rawfeed.finish()

    @property
    def eof(self):
        return self.rawfeed.eof
