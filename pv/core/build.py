"""IR -> pyasn1 schema and value objects."""
from pyasn1.type import univ, char, useful, tag, namedtype, namedval, constraint

from . import ir

SIMPLE_CLASS = {
    'BOOLEAN': univ.Boolean, 'INTEGER': univ.Integer, 'ENUMERATED': univ.Enumerated,
    'BITSTRING': univ.BitString, 'OCTETSTRING': univ.OctetString, 'NULL': univ.Null,
    'OID': univ.ObjectIdentifier, 'REAL': univ.Real,
    'UTF8String': char.UTF8String, 'NumericString': char.NumericString,
    'PrintableString': char.PrintableString, 'TeletexString': char.TeletexString,
    'VideotexString': char.VideotexString, 'IA5String': char.IA5String,
    'GraphicString': char.GraphicString, 'VisibleString': char.VisibleString,
    'GeneralString': char.GeneralString, 'UniversalString': char.UniversalString,
    'BMPString': char.BMPString, 'ObjectDescriptor': useful.ObjectDescriptor,
    'GeneralizedTime': useful.GeneralizedTime, 'UTCTime': useful.UTCTime,
    'ANY': univ.Any,
}
CONSTRUCTED_CLASS = {'SEQUENCE': univ.Sequence, 'SET': univ.Set, 'SEQUENCEOF': univ.SequenceOf,
                     'SETOF': univ.SetOf, 'CHOICE': univ.Choice}

TAG_CLASS = {'U': tag.tagClassUniversal, 'A': tag.tagClassApplication, 'C': tag.tagClassContext,
             'P': tag.tagClassPrivate}


def apply_tags(obj, tags):
    for mode, cls, num in tags:
        if mode == 'I':
            obj = obj.subtype(implicitTag=tag.Tag(TAG_CLASS[cls], tag.tagFormatSimple, num))
        else:
            obj = obj.subtype(explicitTag=tag.Tag(TAG_CLASS[cls], tag.tagFormatConstructed, num))
    return obj


class BuildError(Exception):
    """Building a legal type through the public API raised: a failure of the library, reported by the harness."""
    def __init__(self, T, orig):
        Exception.__init__(self, '%s: %s' % (type(orig).__name__, orig))
        self.T = T
        self.orig = orig


def schema(T, with_cons=True):
    """Build one pyasn1 schema object for the IR type T."""
    try:
        _SHARED.clear()
        return _schema(T, with_cons)
    except BuildError:
        raise
    except Exception as e:
        raise BuildError(T, e)


_SHARED = {}
_OWN = {}


def _schema(T, with_cons=True):
    if T.get('share') and T.get('tags') is not None:
        # members marked 'share' derive their tagged variants from ONE untagged base object (per schema build)
        from . import ir as _ir
        key = _ir.jdump(dict(T, tags=[], share=None))
        base = _SHARED.get(key)
        if base is None:
            base = _SHARED[key] = _schema(dict(T, tags=[], share=None), with_cons)
        if T.get('share') == 'clone':
            # the tagged variant spelt as clone(tagSet=...) of the shared base object
            obj = base
            for mode, cls, num in T.get('tags', ()):
                t = tag.Tag(TAG_CLASS[cls], tag.tagFormatSimple if mode == 'I' else tag.tagFormatConstructed, num)
                obj = obj.clone(tagSet=obj.tagSet.tagImplicitly(t) if mode == 'I' else obj.tagSet.tagExplicitly(t))
            return obj
        return apply_tags(base, T.get('tags', ()))
    return _schema1(T, with_cons)


def _schema1(T, with_cons=True):
    k = T['k']
    if k in SIMPLE_CLASS:
        if k in ('INTEGER', 'ENUMERATED') and T.get('named'):
            obj = SIMPLE_CLASS[k](namedValues=namedval.NamedValues(*[(n, v) for n, v in T['named']]))
        elif T.get('own_typeid'):
            # an application subclass with a type ID of its own (the RFC 1902 idiom: class Counter32(Integer): typeId = ...);
            # codecs find its payload codec through the base tag
            base_cls = SIMPLE_CLASS[k]
            obj = _OWN.setdefault(k, type(base_cls.__name__ + 'App', (base_cls,), {'typeId': base_cls.getTypeId()}))()
        elif T.get('alias') and k in ('TeletexString', 'VisibleString'):
            obj = (char.T61String if k == 'TeletexString' else char.ISO646String)()       # the library's alias classes
        elif T.get('enc_opt'):
            # the documented `encoding=` constructor option of the string types: the codec between text and octets
            obj = SIMPLE_CLASS[k](encoding=T['enc_opt'])
        else:
            obj = SIMPLE_CLASS[k]()
    elif k in ir.RECORD_KINDS:
        nts = []
        for c in T['comps']:
            cs = _schema(c['t'], with_cons)
            if c['p'] == 'req':
                nts.append(namedtype.NamedType(c['name'], cs))
            elif c['p'] == 'opt':
                nts.append(namedtype.OptionalNamedType(c['name'], cs))
            else:
                nts.append(namedtype.DefaultedNamedType(c['name'], value_from(cs, c['t'], c['d'])))
        obj = CONSTRUCTED_CLASS[k](componentType=namedtype.NamedTypes(*nts))
    elif k in ir.OF_KINDS:
        obj = CONSTRUCTED_CLASS[k](componentType=_schema(T['of'], with_cons))
    elif k == 'CHOICE':
        obj = univ.Choice(componentType=namedtype.NamedTypes(
            *[namedtype.NamedType(a['name'], _schema(a['t'], with_cons)) for a in T['alts']]))
    else:
        raise ValueError(k)
    if with_cons and T.get('cons') is not None:
        from . import cons as consmod
        if T.get('cons_class'):
            # the constraint as a class attribute of a subclass (the spelling of generated modules), not wrapped in anything
            obj = type(obj.__class__.__name__ + 'Constrained', (obj.__class__,), {'subtypeSpec': consmod.build(T['cons'], k)})(
                **({'componentType': obj.componentType} if k in ir.CONSTRUCTED_KINDS else {}))
        elif T.get('cons_steps'):
            # a derivation chain whose links add one constraint object each (T['cons'] is their conjunction)
            for step in T['cons_steps']:
                obj = obj.subtype(subtypeSpec=consmod.build(step, k))
        else:
            obj = obj.subtype(subtypeSpec=constraint.ConstraintsIntersection(consmod.build(T['cons'], k)))
    return apply_tags(obj, T.get('tags', ()))


def py_scalar(T, v):
    """IR scalar value -> the Python value handed to the pyasn1 constructor."""
    k = T['k']
    if k == 'BITSTRING':
        return univ.SizedInteger(v[1]).setBitLength(v[0])
    if k == 'NULL':
        return ''
    if k == 'REAL':
        if v == 0:
            return 0.0
        if v == 'inf':
            return 'inf'
        if v == '-inf':
            return '-inf'
        return tuple(v)
    if k == 'OID':
        return tuple(v)
    return v


def value_from(sch, T, v):
    """Value object of IR value v built on (a clone of) schema object sch, components in declaration order."""
    k = T['k']
    if k in ir.RECORD_KINDS:
        o = sch.clone()
        o.clear()
        for idx, c in enumerate(T['comps']):
            if c['name'] in v:
                o.setComponentByPosition(idx, value_from(o.componentType[idx].asn1Object, c['t'], v[c['name']]))
        return o
    if k in ir.OF_KINDS:
        o = sch.clone()
        o.clear()
        for x in v:
            o.append(value_from(o.componentType, T['of'], x))
        return o
    if k == 'CHOICE':
        o = sch.clone()
        name, inner = v
        idx = [a['name'] for a in T['alts']].index(name)
        o.setComponentByPosition(idx, value_from(o.componentType[idx].asn1Object, T['alts'][idx]['t'], inner))
        return o
    return sch.clone(py_scalar(T, v))


def value(T, v, sch=None):
    if sch is None:
        sch = schema(T)
    return value_from(sch, T, v)


def native(T, v):
    """The tree of built-in Python values the native codec documents for v (dict / list / scalars)."""
    k = T['k']
    if k in ir.RECORD_KINDS:
        return {c['name']: native(c['t'], v[c['name']]) for c in T['comps'] if c['name'] in v}
    if k in ir.OF_KINDS:
        return [native(T['of'], x) for x in v]
    if k == 'CHOICE':
        name, inner = v
        t = [a['t'] for a in T['alts'] if a['name'] == name][0]
        return {name: native(t, inner)}
    return v
