"""Constraint expressions: IR, independent denotation, pyasn1 builder, generator.

IR:  {'c': 'single', 'vals': [...]}            SingleValueConstraint
     {'c': 'range', 'lo': a, 'hi': b}           ValueRangeConstraint
     {'c': 'size', 'lo': a, 'hi': b}            ValueSizeConstraint
     {'c': 'alphabet', 'chars': 'abc'}          PermittedAlphabetConstraint
     {'c': 'withcomp', 'rules': [[name, 'present'|'absent'], ...]}   WithComponentsConstraint
     {'c': 'and'|'or', 'ops': [...]}            ConstraintsIntersection / ConstraintsUnion
     {'c': 'except', 'ops': [...]}              ConstraintsExclusion (none of the operands holds)

The value a constraint sees: int for INTEGER/ENUMERATED, bytes for OCTET STRING, (nbits, int) for BIT STRING
(size = nbits), str for character strings (size = number of characters), list for OF types (size = number of
elements), dict of present components for records.
"""
from pyasn1.type import constraint, univ


FIELD_KINDS = {'a': 'INTEGER', 'b': 'OCTETSTRING', 'c': 'BOOLEAN'}     # the record used by C14's presence sub-check


def admits(c, kind, v):
    """Set-theoretic denotation, independent of pyasn1's constraint classes."""
    k = c['c']
    if k == 'single':
        return any(_eq(kind, v, x) for x in c['vals'])
    if k == 'range':
        return c['lo'] <= v <= c['hi']
    if k == 'size':
        return c['lo'] <= _size(kind, v) <= c['hi']
    if k == 'alphabet':
        return all(ch in c['chars'] for ch in v)
    if k == 'withcomp':
        for name, rule in c['rules']:
            if isinstance(rule, dict):
                # a value constraint on a field ("any other constraint object" of the documentation); only asked about records
                # that hold the field
                if name not in v:
                    raise ValueError('value rule on an absent field')
                if not admits(rule, FIELD_KINDS[name], v[name]):
                    return False
            elif (name in v) != (rule == 'present'):
                return False
        return True
    if k == 'and':
        return all(admits(x, kind, v) for x in c['ops'])
    if k == 'or':
        return any(admits(x, kind, v) for x in c['ops'])
    if k == 'except':
        return not any(admits(x, kind, v) for x in c['ops'])
    raise ValueError(k)


def _size(kind, v):
    if kind == 'BITSTRING':
        return v[0]
    return len(v)


def _eq(kind, a, b):
    if kind in ('BITSTRING', 'OID'):
        return tuple(a) == tuple(b)
    return a == b


def _lit(kind, x):
    if kind == 'BITSTRING':
        return univ.BitString(univ.SizedInteger(x[1]).setBitLength(x[0]))
    if kind == 'OID':
        return tuple(x)
    return x


def build(c, kind=None):
    k = c['c']
    if k == 'single':
        return constraint.SingleValueConstraint(*[_lit(kind, x) for x in c['vals']])
    if k == 'range':
        return constraint.ValueRangeConstraint(c['lo'], c['hi'])
    if k == 'size':
        return constraint.ValueSizeConstraint(c['lo'], c['hi'])
    if k == 'alphabet':
        return constraint.PermittedAlphabetConstraint(*list(c['chars']))
    if k == 'withcomp':
        return constraint.WithComponentsConstraint(*[
            (name, build(rule, FIELD_KINDS[name]) if isinstance(rule, dict) else
             constraint.ComponentPresentConstraint() if rule == 'present' else constraint.ComponentAbsentConstraint())
            for name, rule in c['rules']])
    ops = [build(x, kind) for x in c['ops']]
    if k == 'and':
        return constraint.ConstraintsIntersection(*ops)
    if k == 'or':
        return constraint.ConstraintsUnion(*ops)
    if k == 'except':
        return constraint.ConstraintsExclusion(*ops)
    raise ValueError(k)


def constants(c, acc=None):
    """Every constant mentioned in the tree (for boundary candidates)."""
    acc = [] if acc is None else acc
    k = c['c']
    if k == 'single':
        acc += [('val', x) for x in c['vals']]
    elif k == 'range':
        acc += [('val', c['lo']), ('val', c['hi'])]
    elif k == 'size':
        acc += [('size', c['lo']), ('size', c['hi'])]
    elif k == 'alphabet':
        acc += [('chars', c['chars'])]
    elif k in ('and', 'or', 'except'):
        for x in c['ops']:
            constants(x, acc)
    return acc


def n_ops(c):
    if c['c'] in ('and', 'or', 'except'):
        return 1 + sum(n_ops(x) for x in c['ops'])
    return 0


def depth(c):
    if c['c'] in ('and', 'or', 'except'):
        return 1 + max(depth(x) for x in c['ops'])
    return 1


# ------------------------------------------------------------------ generator (d: gen.D)

def draw_leaf(d, kind):
    if kind in ('INTEGER',):
        if d.pct(50):
            lo = d.pick([-130, -129, -128, -10, -1, 0, 0, 0, 1, 5, 127, 128, 255, 256, 65535])
            hi = lo + d.pick([0, 1, 2, 10, 127, 128, 1000])
            if lo < 0 and d.pct(40):
                hi = 0                      # a bound equal to zero on either side
            return {'c': 'range', 'lo': lo, 'hi': hi}
        return {'c': 'single', 'vals': sorted(set(d.pick([-129, -128, -1, 0, 1, 2, 7, 127, 128, 255, 256]) for _ in range(d.int(1, 4))))}
    if kind == 'OCTETSTRING':
        if d.pct(65):
            lo = d.int(0, 4)
            return {'c': 'size', 'lo': lo, 'hi': lo + d.int(0, 4)}
        return {'c': 'single', 'vals': [d.bytes(d.int(0, 3)) for _ in range(d.int(1, 3))]}
    if kind == 'BITSTRING':
        lo = d.int(0, 9)
        return {'c': 'size', 'lo': lo, 'hi': lo + d.int(0, 9)}
    if kind in ('SEQUENCEOF', 'SETOF'):
        lo = d.int(0, 3)
        return {'c': 'size', 'lo': lo, 'hi': lo + d.int(0, 3)}
    if kind == 'OID':
        # (the payload a constraint sees is a tuple of arcs: single values only)
        pool = [(1, 3, 6), (1, 3, 6, 1), (1, 3, 6, 2), (1, 3), (2, 5, 4, 3), (0, 0), (1, 3, 6, 1, 4, 1, 20408)]
        return {'c': 'single', 'vals': sorted(set(d.pick(pool) for _ in range(d.int(1, 3))))}
    # character strings
    r = d.int(0, 9)
    if r < 4:
        lo = d.int(0, 4)
        return {'c': 'size', 'lo': lo, 'hi': lo + d.int(0, 4)}
    if r < 8:
        return {'c': 'alphabet', 'chars': ''.join(sorted(set(d.pick('abcdefAB012 ') for _ in range(d.int(1, 5)))))}
    return {'c': 'single', 'vals': [''.join(d.pick('abA0') for _ in range(d.int(0, 3))) for _ in range(d.int(1, 3))]}


def draw_expr(d, kind, depth_left):
    if depth_left <= 1 or d.pct(35):
        return draw_leaf(d, kind)
    op = d.pick(['and', 'and', 'or', 'or', 'except'])
    n = d.int(1, 3) if op != 'except' else d.int(1, 2)
    return {'c': op, 'ops': [draw_expr(d, kind, depth_left - 1) for _ in range(n)]}


def candidates(d, c, kind):
    """Values around every boundary mentioned in the tree (not necessarily admitted)."""
    out = []
    for what, x in constants(c):
        if what == 'val':
            if kind == 'INTEGER':
                out += [x - 1, x, x + 1]
            elif kind == 'OID':
                out += [tuple(x), tuple(x) + (1,)] + ([tuple(x)[:-1]] if len(x) > 2 else [])
            else:
                out.append(x)
        elif what == 'size':
            for n in (x - 1, x, x + 1):
                if n >= 0:
                    out.append(('size', n))
        elif what == 'chars':
            out.append(('chars', x))
    return out


def value_of_size(d, kind, n, chars=None):
    if kind == 'OCTETSTRING':
        return d.bytes(n)
    if kind == 'BITSTRING':
        return (n, d.int(0, 2 ** n - 1) if n else 0)
    pool = chars or 'abAB01 z'
    return ''.join(d.pick(pool) for _ in range(n))
