"""Hypothesis strategies for the universe U: a random ASN.1 type with a random value of it.

Everything random goes through `draw` so that cases replay and shrink.  Soundness rules (only legal
ASN.1, only what the library documents) are enforced by construction - see DESIGN.md 2.1.
"""
from hypothesis import strategies as st

from . import ir, x690

BOUNDARY_TAGNUMS = [0, 1, 2, 3, 30, 31, 32, 127, 128, 129, 16383, 16384, 2 ** 21 - 1, 2 ** 21, 2 ** 32, 2 ** 64, 2 ** 140]
CLASSES = ['C', 'C', 'C', 'A', 'P']

NUMERIC = '0123456789 '
PRINTABLE = 'ABCDEFGHIJKLMNOPQRSTUVWXYZabcdefghijklmnopqrstuvwxyz0123456789 \'()+,-./:=?'
VISIBLE = ''.join(chr(c) for c in range(0x20, 0x7f))
IA5 = ''.join(chr(c) for c in range(0x00, 0x80))
LATIN = VISIBLE + ''.join(chr(c) for c in range(0xa0, 0x100))

CHAR_ALPHABET = {
    'NumericString': NUMERIC, 'PrintableString': PRINTABLE, 'VisibleString': VISIBLE, 'IA5String': IA5,
    'TeletexString': LATIN, 'VideotexString': LATIN, 'GraphicString': LATIN, 'GeneralString': LATIN,
    'ObjectDescriptor': LATIN,
}

SIMPLE_KINDS = ['BOOLEAN', 'INTEGER', 'INTEGER', 'ENUMERATED', 'BITSTRING', 'OCTETSTRING', 'OCTETSTRING',
                'NULL', 'OID', 'REAL', 'UTF8String', 'NumericString', 'PrintableString', 'TeletexString',
                'VideotexString', 'IA5String', 'GraphicString', 'VisibleString', 'GeneralString',
                'UniversalString', 'BMPString', 'ObjectDescriptor', 'GeneralizedTime', 'UTCTime']

DEFAULT_CFG = dict(
    max_depth=3,            # nesting of constructed types
    max_comps=4,
    any=True,               # ANY allowed
    choice=True,
    implicit=True,          # IMPLICIT tags allowed
    tags=True,              # any tagging allowed at all
    tag_pct=35,             # chance (percent) that a node carries a tag stack
    long_str_pct=2,         # chance that a string is long (> 1000 octets)
    real10_pct=10,          # share of decimal reals among non-special reals
    big_tagnums=True,
    time_kinds=True,
    constructed_pct=55,     # chance to go constructed while depth remains
    setof_distinct=False,
    named_bits=False,
    kinds=None,             # restrict simple kinds
    defaults=True,
    optionals=True,
    empty_record_opt=True,  # OPTIONAL components whose type is a record without mandatory members
    utf_multibyte_pct=30,   # chance that UTF8/BMP/Universal strings contain non-ASCII characters
    any_indef_pct=0,        # chance that an ANY holds an indefinite-length encoding
    root_kinds=None,
)


class D(object):
    """Convenience wrapper around draw."""
    def __init__(self, draw, cfg):
        self.draw = draw
        self.cfg = cfg

    def int(self, a, b):
        return self.draw(st.integers(a, b))

    def pct(self, p):
        if p <= 0:
            return False
        if p >= 100:
            return True
        return self.draw(st.integers(0, 99)) < p

    def pick(self, seq):
        return self.draw(st.sampled_from(list(seq)))

    def bytes(self, n):
        return self.draw(st.binary(min_size=n, max_size=n))


# ------------------------------------------------------------------ tags

def draw_tagnum(d):
    if d.cfg['big_tagnums'] and d.pct(45):
        return d.pick(BOUNDARY_TAGNUMS)
    if d.pct(10) and d.cfg['big_tagnums']:
        return d.int(0, 2 ** 40)
    return d.int(0, 40)


def draw_tag_stack(d, untagged_base, maxlen=3):
    """Tag stack (innermost first). untagged_base: CHOICE/ANY - the first tag must be EXPLICIT."""
    n = 1 if d.pct(70) else d.int(2, maxlen)
    out = []
    for i in range(n):
        mode = 'E'
        if d.cfg['implicit'] and not (untagged_base and i == 0) and d.pct(50):
            mode = 'I'
        out.append([mode, d.pick(CLASSES), draw_tagnum(d)])
    return out


def _retag(d, T, used):
    """Give T a fresh outer context tag not in `used` (a set of (cls, num))."""
    for _ in range(20):
        num = draw_tagnum(d)
        cls = d.pick(CLASSES)
        if (cls, num) not in used:
            break
    else:
        num = max([n for c, n in used] or [0]) + 1
        cls = 'C'
    stack, _hb = ir.tag_stack(T)
    mode = 'E'
    if d.cfg['implicit'] and stack and d.pct(50):
        mode = 'I'
    T['tags'] = list(T.get('tags', [])) + [[mode, cls, num]]
    return (cls, num)


def _make_distinct(d, members, sequence_rule):
    """Enforce X.680 distinct-tag rules on a list of (T, presence) by re-tagging offenders."""
    if sequence_rule:
        run = set()
        for T, p in members:
            ft = ir.first_tags(T)
            in_run = bool(run) or p != 'req'
            if in_run and (ft is None or (ft & run)):
                tg = _retag(d, T, run | (ft or set()))
                ft = {tg}
            if p != 'req':
                run |= ft if ft is not None else set()
            else:
                run = set()
        return
    used = set()
    for T, p in members:
        ft = ir.first_tags(T)
        if ft is None or (ft & used):
            tg = _retag(d, T, used | (ft or set()))
            ft = {tg}
        used |= ft


# ------------------------------------------------------------------ types

_NAMES = ['a', 'b', 'c', 'd', 'e', 'f', 'g', 'h']


def draw_type(d, depth=None, root=True, allow_any=True):
    cfg = d.cfg
    if depth is None:
        depth = cfg['max_depth']
    if root and cfg.get('root_kinds'):
        kind = d.pick(cfg['root_kinds'])
        T = _type_of_kind(d, kind, depth)
    elif depth > 0 and d.pct(cfg['constructed_pct']):
        opts = ['SEQUENCE', 'SEQUENCE', 'SET', 'SEQUENCEOF', 'SETOF']
        if cfg['choice']:
            opts.append('CHOICE')
        T = _type_of_kind(d, d.pick(opts), depth)
    else:
        kinds = cfg['kinds'] or SIMPLE_KINDS
        if not cfg['time_kinds']:
            kinds = [k for k in kinds if k not in ('GeneralizedTime', 'UTCTime')] or ['INTEGER']
        if cfg['any'] and allow_any and d.pct(6):
            T = ir.mk('ANY')
        else:
            T = _type_of_kind(d, d.pick(kinds), depth)
    if cfg['tags'] and d.pct(cfg['tag_pct']):
        T['tags'] = draw_tag_stack(d, T['k'] in ('CHOICE', 'ANY'))
    return T


def _type_of_kind(d, kind, depth):
    cfg = d.cfg
    if kind == 'INTEGER':
        T = ir.mk('INTEGER')
        if d.pct(15):
            T['named'] = [['n%d' % i, v] for i, v in enumerate(sorted(set(d.int(-5, 300) for _ in range(d.int(1, 3)))))]
        return T
    if kind == 'ENUMERATED':
        vals = sorted(set(d.pick([0, 1, 2, 3, 127, 128, 255, 256, -1, -128, -129, 65535]) for _ in range(d.int(1, 4))))
        return ir.mk('ENUMERATED', named=[['e%d' % i, v] for i, v in enumerate(vals)])
    if kind in ('SEQUENCE', 'SET'):
        n = d.int(0, cfg['max_comps'])
        comps = []
        for i in range(n):
            p = 'req'
            r = d.int(0, 99)
            if cfg['optionals'] and r < 30:
                p = 'opt'
            elif cfg['defaults'] and r < 45:
                p = 'def'
            if p == 'def':
                # mostly scalar defaults; sometimes a constructed one (SEQUENCE OF, record, CHOICE of scalars)
                ddepth = 0
                if depth > 1 and d.pct(cfg.get('constructed_default_pct', 20)):
                    ddepth = min(depth - 1, d.pick([1, 1, 2]))
                # (no REAL or time type anywhere in a default: the library recognises defaults through float() / string equality)
                dkinds = [k for k in (cfg['kinds'] or SIMPLE_KINDS) if k not in ('REAL', 'GeneralizedTime', 'UTCTime')] or ['INTEGER']
                ct = draw_type(D(d.draw, dict(cfg, any=False, kinds=dkinds if ddepth else cfg['kinds'],
                                              constructed_pct=100 if ddepth else cfg['constructed_pct'])), ddepth,
                               root=False, allow_any=False)
                if ct['k'] in ('GeneralizedTime', 'UTCTime', 'REAL'):
                    # REAL: the library compares a DEFAULT component with its default through float()
                    ct = ir.mk('INTEGER', tags=ct.get('tags', []))
            else:
                ct = draw_type(d, depth - 1, root=False)
            if p == 'opt' and not cfg['empty_record_opt'] and _fresh_is_value(ct):
                p = 'req'
            comps.append((ct, p))
        if kind == 'SEQUENCE' and n >= 3 and d.pct(cfg.get('repeat_tag_pct', 15)):
            # the same type (hence tag) again in a later OPTIONAL/DEFAULT run, a mandatory member in between: legal (X.680
            # 25.6 asks for distinct tags only within a run and its successor) and a trap for position lookups by tag
            i = d.int(0, n - 3)
            ct = comps[i][0]
            if ct['k'] != 'ANY' and (cfg['empty_record_opt'] or not _fresh_is_value(ct)) and cfg['optionals']:
                if comps[i][1] == 'req':
                    comps[i] = (ct, 'opt')
                comps[i + 1] = (comps[i + 1][0], 'req')
                comps[i + 2] = (ir.from_jsonable(ir.to_jsonable(ct)), 'opt')
        _make_distinct(d, comps, sequence_rule=(kind == 'SEQUENCE'))
        out = []
        for i, (ct, p) in enumerate(comps):
            c = ir.comp(_NAMES[i], ct, p)
            if p == 'def':
                c['d'] = draw_value(d, ct)
            out.append(c)
        return ir.mk(kind, comps=out)
    if kind in ('SEQUENCEOF', 'SETOF'):
        of = draw_type(d, depth - 1, root=False)
        if cfg.get('selfdesc') and kind == 'SETOF':
            ft = ir.first_tags(of)
            if ft is None or len(ft) > 1:
                _retag(d, of, set())        # members of a SET OF must all carry the same tag
        return ir.mk(kind, of=of)
    if kind == 'CHOICE':
        n = d.int(1, cfg['max_comps'])
        alts = [(draw_type(d, depth - 1, root=False, allow_any=False), 'req') for _ in range(n)]
        _make_distinct(d, alts, sequence_rule=False)
        return ir.mk('CHOICE', alts=[{'name': _NAMES[i], 't': t} for i, (t, _p) in enumerate(alts)])
    if kind in ('TeletexString', 'VisibleString') and d.pct(30):
        return ir.mk(kind, alias=True)
    if kind in ('BOOLEAN', 'BITSTRING', 'OCTETSTRING', 'NULL', 'OID', 'REAL', 'UTF8String') and d.pct(8):
        return ir.mk(kind, own_typeid=True)
    return ir.mk(kind)


def _fresh_is_value(T):
    """A record without mandatory members: a fresh instance is indistinguishable from 'present, empty'."""
    return T['k'] in ir.RECORD_KINDS and all(c['p'] != 'req' for c in T['comps'])


# ------------------------------------------------------------------ values

INT_BOUNDARY = [0, 1, -1, 127, 128, -128, -129, 255, 256, 32767, 32768, -32768, -32769, 65535, 65536,
                2 ** 31 - 1, 2 ** 31, -2 ** 31, -2 ** 31 - 1, 2 ** 63 - 1, 2 ** 63, -2 ** 63, -2 ** 63 - 1, 2 ** 64]
STR_SIZES = [0, 0, 1, 1, 2, 3, 5, 8, 13, 20, 39, 125, 126, 127, 128, 129, 255, 256]
LONG_SIZES = [999, 1000, 1001, 1999, 2000, 2001, 2500]


def draw_size(d, long_ok=True):
    if long_ok and d.cfg.get('huge_str_pct') and d.pct(d.cfg['huge_str_pct']):
        return d.pick([65535, 65536, 65537, 70001])
    if long_ok and d.pct(d.cfg['long_str_pct']):
        return d.pick(LONG_SIZES)
    if d.pct(75):
        return d.int(0, 12)
    return d.pick(d.cfg.get('str_sizes', STR_SIZES))


def draw_text(d, alphabet, n):
    if n == 0:
        return ''
    if n > 64:
        unit = ''.join(d.pick(alphabet) for _ in range(7))
        return (unit * (n // 7 + 1))[:n]
    return ''.join(d.pick(alphabet) for _ in range(n))


def draw_unicode(d, n, maxcp):
    if n == 0:
        return ''
    multi = d.pct(d.cfg['utf_multibyte_pct'])
    pool = VISIBLE if not multi else None
    out = []
    m = min(n, 64)
    for _ in range(m):
        if pool is not None:
            out.append(d.pick(pool))
        else:
            r = d.int(0, 9)
            if r < 4:
                out.append(chr(d.int(0x20, 0x7e)))
            elif r < 7:
                out.append(chr(d.int(0xa0, 0x7ff)))
            elif r < 9 or maxcp <= 0xffff:
                cp = d.int(0x800, 0xffff)
                if 0xd800 <= cp <= 0xdfff:
                    cp = 0x20ac
                out.append(chr(cp))
            else:
                out.append(chr(d.int(0x10000, maxcp)))
    s = ''.join(out)
    if n > m:
        s = (s * (n // m + 1))[:n]
    return s


def draw_time(d, kind):
    y = d.int(1, 9999) if kind == 'GeneralizedTime' else None
    mo, da = d.int(1, 12), d.int(1, 28)
    h, mi, s = d.int(0, 23), d.int(0, 59), d.int(0, 59)
    if d.pct(25):
        # calendar and clock boundaries: last day of a month (29 February in a leap year), last second of a day
        mo = d.pick([1, 2, 2, 3, 4, 6, 9, 11, 12, 12])
        da = {2: 29}.get(mo, 30 if mo in (4, 6, 9, 11) else 31)
        if mo == 2:
            if y is None:
                y2 = d.pick([0, 4, 96, 72, 68, 48, 52])
                return '%02d0229%02d%02d%02dZ' % (y2, h, mi, s)
            y = d.pick([4, 400, 1600, 1996, 2000, 2024, 2400, 9996])
        if d.pct(50):
            h, mi, s = d.pick([(23, 59, 59), (0, 0, 0), (23, 59, 0), (0, 0, 59)])
    if kind == 'UTCTime':
        return '%02d%02d%02d%02d%02d%02dZ' % (d.int(0, 99), mo, da, h, mi, s)
    base = '%04d%02d%02d%02d%02d%02d' % (y, mo, da, h, mi, s)
    if d.pct(40):
        nd = d.int(1, 3)
        base += '.' + ''.join(d.pick('123456789') for _ in range(nd))
    return base + 'Z'


def draw_int(d):
    r = d.int(0, 9)
    if r < 4:
        return d.pick(INT_BOUNDARY)
    if r < 8:
        return d.int(-300, 300)
    return d.int(-2 ** 80, 2 ** 80)


def draw_oid(d):
    first = d.int(0, 2)
    if d.pct(30):
        # the first two arcs share one subidentifier (40 * first + second): its boundaries 39 | 40, 79 | 80, 127 | 128
        first, second = d.pick([(0, 0), (0, 39), (1, 0), (1, 39), (2, 0), (2, 0), (2, 1), (2, 39), (2, 40), (2, 47), (2, 48), (2, 16303), (2, 16304)])
    else:
        second = d.int(0, 39) if (first < 2 or d.pct(60)) else d.pick([40, 47, 48, 100, 999, 2 ** 32])
    n = d.pick([0, 0, 1, 2, 3, 4, 6, 8])
    rest = []
    for _ in range(n):
        if d.pct(50):
            rest.append(d.pick([0, 1, 127, 128, 255, 16383, 16384, 2 ** 21 - 1, 2 ** 21, 2 ** 32, 2 ** 64]))
        else:
            rest.append(d.int(0, 5000))
    return (first, second) + tuple(rest)


def draw_real(d):
    r = d.int(0, 99)
    if r < 8:
        return 0
    if r < 12:
        return 'inf'
    if r < 16:
        return '-inf'
    if d.cfg.get('float_reals'):
        # values exactly representable as Python floats (C17 compares REALs as floats)
        m = d.int(1, 2 ** 53 - 1) if d.pct(40) else d.int(1, 999)
        if d.pct(50):
            m = -m
        if d.pct(20):
            # towards the ends of the double range (the value stays within it; below 2^-1074 it rounds to zero or the smallest
            # subnormal, which correct rounding decides)
            return (m, 2, d.pick([-1100, -1080, -1074, -1073, -1060, -1022, -1000, -500, 500, 900, 960]))
        return (m, 2, d.int(-60, 60))
    if d.pct(d.cfg['real10_pct']):
        m = d.int(1, 2 ** 53 - 1) if d.pct(30) else d.int(1, 9999)
        while m % 10 == 0:
            m //= 10
        if d.pct(50):
            m = -m
        return (m, 10, d.int(-30, 30) if d.pct(40) else d.int(-4, 4))
    m = d.pick([1, 3, 5, 255, 256, 257, 2 ** 53 - 1, 2 ** 53, 2 ** 64 + 1, 6, 12, 1024]) if d.pct(40) else d.int(1, 2 ** 70)
    if d.pct(50):
        m = -m
    e = d.pick([0, 1, -1, 127, 128, -128, -129, 32767, 32768, -32768, -32769]) if d.pct(40) \
        else d.int(-1100, 1100)
    if d.pct(d.cfg.get('real_wide_exp_pct', 4)):
        # exponents that need four octets or the length-prefixed form (X.690 8.5.7.4 d)
        e = d.pick([2 ** 23 - 1, 2 ** 23, -2 ** 23, -2 ** 23 - 1, 2 ** 24 + 1, -2 ** 24 - 3])     # (larger ones make float() of the library take minutes)
        m = d.pick([1, 3, 255, 257]) * (-1 if m < 0 else 1)
    return (m, 2, e)


def draw_value(d, T):
    k = T['k']
    if k == 'BOOLEAN':
        return d.pct(50)
    if k == 'INTEGER':
        return draw_int(d)
    if k == 'ENUMERATED':
        return d.pick([v for _n, v in T['named']])
    if k == 'BITSTRING':
        n = d.pick([0, 1, 7, 8, 9, 15, 16, 17]) if d.pct(40) else d.int(0, 40)
        if d.pct(d.cfg.get('long_bits_pct', d.cfg['long_str_pct'])):
            n = d.pick([7999, 8000, 8001, 8008, 16001, 16003])
        if n == 0:
            return (0, 0)
        if n > 64:
            unit = d.int(0, 2 ** 64 - 1)
            val = 0
            for _ in range(n // 64 + 1):
                val = (val << 64) | unit
            val &= (1 << n) - 1
            if d.pct(50):
                # leading zero bits (an all-zero first segment when the value is long enough)
                val >>= d.pick([1, 8, 64, 8000, 8001])
            return (n, val)
        val = d.int(0, 2 ** n - 1)
        r = d.int(0, 9)
        if r < 3:
            val >>= d.int(1, n)                     # leading zero bits / octets
        elif r < 5:
            val = (val << d.int(1, n)) & (2 ** n - 1)   # trailing zero bits / octets
        return (n, val)
    if k == 'OCTETSTRING':
        n = draw_size(d)
        if n > 64:
            unit = d.bytes(16)
            return (unit * (n // 16 + 1))[:n]
        return d.bytes(n)
    if k == 'NULL':
        return None
    if k == 'OID':
        return draw_oid(d)
    if k == 'REAL':
        return draw_real(d)
    if k in ('GeneralizedTime', 'UTCTime'):
        return draw_time(d, k)
    if k == 'UTF8String':
        return draw_unicode(d, draw_size(d), 0x10ffff)
    if k == 'UniversalString':
        return draw_unicode(d, min(draw_size(d), 600), 0x10ffff)
    if k == 'BMPString':
        return draw_unicode(d, min(draw_size(d), 1100), 0xffff)
    if k in CHAR_ALPHABET:
        return draw_text(d, CHAR_ALPHABET[k], draw_size(d))
    if k in ir.RECORD_KINDS:
        out = {}
        for c in T['comps']:
            if c['p'] == 'req':
                out[c['name']] = draw_value(d, c['t'])
            elif c['p'] == 'opt':
                if d.pct(55):
                    out[c['name']] = draw_value(d, c['t'])
            else:
                r = d.int(0, 9)
                if r < 3:
                    pass
                elif r < 5:
                    out[c['name']] = c['d']
                else:
                    out[c['name']] = draw_value(d, c['t'])
        return out
    if k in ir.OF_KINDS:
        n = d.pick([0, 1, 1, 2, 2, 3, 4])
        if T['of']['k'] in ('BOOLEAN', 'INTEGER', 'NULL', 'ENUMERATED') and d.pct(d.cfg.get('many_elems_pct', 3)):
            # element counts around the one-octet boundaries (contents of 127 / 128 / 256 octets and more)
            n = d.pick([42, 43, 63, 64, 85, 86, 127, 128, 129, 255, 256, 257])
            few = [draw_value(d, T['of']) for _ in range(5)]
            return [few[(i * 7 + i // 5) % 5] for i in range(n)]
        if T['of']['k'] in ('CHOICE', 'SEQUENCE', 'SET', 'OCTETSTRING', 'UTF8String') and ir.depth(T['of']) <= 1 \
                and d.pct(d.cfg.get('many_elems_pct', 3)):
            # a hundred and more constructed elements in one list (whatever a decoder counts per element adds up)
            n = d.pick([97, 98, 99, 100, 101, 130])
            few = [draw_value(D(d.draw, dict(d.cfg, long_str_pct=0, many_elems_pct=0)), T['of']) for _ in range(4)]
            return [few[(i * 3 + i // 4) % 4] for i in range(n)]
        return [draw_value(d, T['of']) for _ in range(n)]
    if k == 'CHOICE':
        a = d.pick(T['alts'])
        return (a['name'], draw_value(d, a['t']))
    if k == 'ANY':
        sub_cfg = dict(d.cfg, any=False, max_depth=1, long_str_pct=0, max_comps=2)
        sd = D(d.draw, sub_cfg)
        it = draw_type(sd, 1, root=False, allow_any=False)
        while not ir.tag_stack(it)[0]:
            it = it['alts'][0]['t'] if it['k'] == 'CHOICE' else ir.mk('INTEGER')
        iv = draw_value(sd, it)
        if d.pct(d.cfg.get('any_long_pct', 5)):
            it = ir.mk('OCTETSTRING', tags=it.get('tags', []) if it['k'] not in ('CHOICE', 'ANY') else [])
            n = d.pick([127, 128, 199, 200, 201, 255, 256, 300, 1000])
            iv = (d.bytes(8) * (n // 8 + 1))[:n]
        if d.pct(d.cfg['any_indef_pct']):
            return x690.cer(it, iv)
        return x690.der(it, iv)
    raise ValueError(k)


# ------------------------------------------------------------------ strategies

@st.composite
def type_and_value(draw, cfg=None):
    c = dict(DEFAULT_CFG)
    if cfg:
        c.update(cfg)
    d = D(draw, c)
    if c['choice'] and c['defaults'] and c['tags'] and c['implicit'] and not c.get('root_kinds') and d.pct(c.get('choice_default_pct', 3)):
        return choice_default_case(d)
    if c['choice'] and c['tags'] and not c.get('root_kinds') and c['max_depth'] >= 2 and d.pct(c.get('directed_pct', 2)):
        return nested_choice_set_case(d)
    if c['tags'] and c['implicit'] and not c.get('root_kinds') and c['max_depth'] >= 2 and d.pct(c.get('directed_pct', 2)):
        return shared_base_case(d)
    if c['defaults'] and c['tags'] and c['implicit'] and not c.get('root_kinds') and c['max_depth'] >= 2 and d.pct(c.get('directed_pct', 2)):
        return empties_case(d)
    if c['choice'] and c['tags'] and c['implicit'] and not c.get('root_kinds') and c['max_depth'] >= 2 and c.get('many_elems_pct', 3) \
            and d.pct(c.get('directed_pct', 2)):
        return many_choice_case(d)
    if c['defaults'] and not c.get('root_kinds') and c['max_depth'] >= 2 and d.pct(c.get('directed_pct', 2)):
        return codec_sensitive_default_case(d)
    if not c.get('kinds') and not c.get('root_kinds') and d.pct(c.get('numeric_pct', 10)):
        # a universe of numbers only: the forms of REAL (bases, exponent lengths, decimal spellings, wide exponents) and the
        # boundaries of the integers are met once in a few hundred general cases otherwise
        c2 = dict(c, kinds=['REAL', 'REAL', 'REAL', 'INTEGER', 'ENUMERATED', 'BOOLEAN'], max_depth=min(2, c['max_depth']),
                  real10_pct=(25 if c['real10_pct'] else 0), real_wide_exp_pct=(12 if c.get('real_wide_exp_pct', 4) else 0))
        d2 = D(draw, c2)
        T = draw_type(d2)
        return T, draw_value(d2, T)
    T = draw_type(d)
    v = draw_value(d, T)
    return T, v


def ber_modes():
    return st.tuples(st.booleans(), st.sampled_from([0, 0, 1, 2, 3, 7, 1000, 1000, 17, 64, 999, 1001, 2000]))


class HypChooser(object):
    """x690 chooser whose answers are drawn from Hypothesis (every BER choice point)."""
    canonical = False
    name = 'BER(drawn)'

    def __init__(self, draw, weights=None):
        self.draw = draw
        w = dict(indef=40, overlong=15, odd_true=60, segment=35, nested=25, default=40, shift=25, permute=70,
                 empty_seg=5)
        if weights:
            w.update(weights)
        self.w = w

    def _pct(self, p):
        if p <= 0:
            return False
        return self.draw(st.integers(0, 99)) < p

    def indefinite(self, where, T=None, path=''):
        return self._pct(self.w['indef'])

    def len_form(self, n, path=''):
        if self._pct(self.w['overlong']):
            # (up to 126 length octets are legal, X.690 8.1.3.5; lengths below 2^32 need at most four)
            return self.draw(st.sampled_from([0, 1, 1, 2, 2, 3, 3, 4, 5, 6, 7, 8, 9, 16, 60, 121, 122])), True
        return 0, False

    def true_octet(self, path=''):
        if self._pct(self.w['odd_true']):
            return self.draw(st.sampled_from([1, 2, 0x7f, 0x80, 0xfe, 0xff]))
        return 0xff

    def segments(self, nbytes, is_bits, path='', depth=0):
        if not self._pct(self.w['segment'] if depth == 0 else self.w['nested']):
            return None
        out = []
        left = nbytes
        while True:
            if left == 0:
                if not out and self._pct(50):
                    break           # an empty string in constructed form with no segment at all (X.690 8.6.4 / 8.7.3: zero, one or more)
                if not out or self._pct(self.w['empty_seg']):
                    out.append((0, None))
                break
            if len(out) >= 4:
                size = left
            else:
                size = self.draw(st.integers(1, left)) if not self._pct(self.w['empty_seg']) else 0
            sub = self.segments(size, is_bits, path, depth + 1) if depth < 2 and size else None
            out.append((size, sub))
            left -= size
        return out

    def emit_default(self, path=''):
        return self._pct(self.w['default'])

    def real_shift(self, path=''):
        return self.draw(st.integers(1, 9)) if self._pct(self.w['shift']) else 0

    def real10_form(self, path=''):
        return self.draw(st.integers(1, 4)) if self._pct(40) else 0

    def real_bin_form(self, path=''):
        if not self._pct(self.w.get('binform', 35)):
            return None
        return (self.draw(st.sampled_from([0, 0, 1, 2])), self.draw(st.sampled_from([0, 0, 1, 2, 3])), self.draw(st.sampled_from([0, 1, 2, 3, 3])))

    def permute(self, n, what, path=''):
        if n < 2 or not self._pct(self.w['permute']):
            return None
        return self.draw(st.permutations(list(range(n))))


FORMS = ['DER', 'DER', 'CER', 'BER-indef', 'BER-indef-chunk2', 'BER-chunk3', 'BER-drawn', 'BER-drawn']


def encode_form(draw, T, v, form):
    if form == 'DER':
        return x690.der(T, v)
    if form == 'CER':
        return x690.cer(T, v)
    if form == 'BER-indef':
        return x690.ber(T, v, x690.Fixed(indef=True))
    if form == 'BER-indef-chunk2':
        return x690.ber(T, v, x690.Fixed(indef=True, chunk=2))
    if form == 'BER-chunk3':
        return x690.ber(T, v, x690.Fixed(indef=False, chunk=3))
    return x690.ber(T, v, HypChooser(draw, weights={'empty_seg': 2}))


@st.composite
def encoded_values(draw, cfg=None, nmin=1, nmax=1, forms=None):
    """One type, n values of it, each in a reference encoding of a drawn form.
    -> {'T', 'vals', 'encs', 'forms'}"""
    c = dict(DEFAULT_CFG)
    if cfg:
        c.update(cfg)
    d = D(draw, c)
    T = draw_type(d)
    n = d.int(nmin, nmax)
    vals, encs, fs = [], [], []
    for _ in range(n):
        v = draw_value(d, T)
        f = d.pick(forms or FORMS)
        vals.append(v)
        encs.append(encode_form(draw, T, v, f))
        fs.append(f)
    return {'T': T, 'vals': vals, 'encs': encs, 'forms': fs}


def choice_default_case(d):
    """A record with a CHOICE-typed DEFAULT whose alternatives can hold the same inner value: which alternative is selected is
    part of the value (the library's == of CHOICE values looks at the inner value only). -> (T, v)"""
    k = d.pick(['INTEGER', 'OCTETSTRING', 'UTF8String', 'BOOLEAN'])
    inner = draw_value(d, ir.mk(k))
    C = ir.mk('CHOICE', alts=[{'name': 'p', 't': ir.mk(k)}, {'name': 'q', 't': ir.mk(k, tags=[['I', 'C', 0]])},
                              {'name': 'r', 't': ir.mk(k, tags=[['E', 'C', 1]])}])
    T = ir.mk(d.pick(['SEQUENCE', 'SET']), comps=[ir.comp('x', ir.mk('INTEGER', tags=[['I', 'C', 5]])), ir.comp('c', C, 'def', ('p', inner))])
    v = {'x': d.int(-3, 300), 'c': (d.pick(['p', 'q', 'r']), inner if d.pct(70) else draw_value(d, ir.mk(k)))}
    return T, v


def nested_choice_set_case(d, selfdesc=False):
    """A SET whose DER order depends on the alternative selected TWO levels down in untagged CHOICEs (the alternatives p, q of
    the inner CHOICE lie on either side of the tag of member a). -> (T, v)"""
    pool = ['BOOLEAN', 'INTEGER', 'OCTETSTRING', 'NULL', 'OID', 'UTF8String', 'IA5String', 'PrintableString', 'VisibleString', 'BMPString']
    ks = sorted(d.draw(st.lists(st.sampled_from(pool), min_size=3, max_size=3, unique=True)), key=lambda k: ir.UNIVERSAL[k])
    inner = ir.mk('CHOICE', alts=[{'name': 'p', 't': ir.mk(ks[0])}, {'name': 'q', 't': ir.mk(ks[2])}])
    outer = ir.mk('CHOICE', alts=[{'name': 'x', 't': inner}, {'name': 'y', 't': ir.mk('INTEGER', tags=[['E', 'C', 7]])}])
    T = ir.mk('SET', comps=[ir.comp('a', ir.mk(ks[1])), ir.comp('b', outer)])
    sel = d.pick(['p', 'q'])
    v = {'a': draw_value(d, T['comps'][0]['t']), 'b': ('x', (sel, draw_value(d, inner['alts'][0 if sel == 'p' else 1]['t'])))}
    return T, v


def shared_base_case(d):
    """One constructed type used three times in a record: as it is, IMPLICITly and EXPLICITly tagged (build.schema derives the
    tagged variants from ONE base object, as a module-level type is used in practice). -> (T, v)"""
    base = draw_type(D(d.draw, dict(d.cfg, tags=False, any=False)), 1, root=False, allow_any=False)
    if base['k'] not in ir.CONSTRUCTED_KINDS or base['k'] in ('SET', 'SETOF'):
        base = ir.mk('SEQUENCE', comps=[ir.comp('x', ir.mk('INTEGER')), ir.comp('y', ir.mk('OCTETSTRING'), 'opt')])
    how = d.pick(['base', 'base', 'clone'])
    cp = lambda tags: dict(ir.from_jsonable(ir.to_jsonable(base)), tags=tags, share=how)
    T = ir.mk('SEQUENCE', comps=[ir.comp('p', cp([[ 'I', 'C', 0]])), ir.comp('q', cp([['E', 'C', 1]])), ir.comp('r', cp([]), 'opt')])
    v = {'p': draw_value(d, base), 'q': draw_value(d, base)}
    if d.pct(70):
        v['r'] = draw_value(d, base)
    return T, v


def empties_case(d):
    """A record in which an OPTIONAL member (present or not) is followed by list-typed members - one DEFAULT, one mandatory - whose
    elements are EMPTY constructed values; value and default differ in the number of empty elements only. (Options that an
    encoder sets for one member and that are still in force for the next show here.) -> (T, v)"""
    ek = d.pick(['SET', 'SEQUENCE', 'SEQUENCEOF', 'SETOF', 'OPTREC'])
    if ek in ('SET', 'SEQUENCE'):
        E, ev = ir.mk(ek, comps=[]), {}
    elif ek == 'OPTREC':
        E, ev = ir.mk('SEQUENCE', comps=[ir.comp('u', ir.mk('INTEGER'), 'opt'), ir.comp('w', ir.mk('BOOLEAN', tags=[['I', 'C', 0]]), 'opt')]), {}
    else:
        E, ev = ir.mk(ek, of=ir.mk('INTEGER')), []
    lk = d.pick(['SEQUENCEOF', 'SETOF'])
    tg = lambda n: [[d.pick(['E', 'I']), 'C', n]] if d.pct(60) else []
    nd, nv, nm = d.int(0, 3), d.int(0, 3), d.int(0, 2)
    first = d.pick([ir.mk('INTEGER'), ir.mk('UTF8String'), ir.mk('SEQUENCE', comps=[]), ir.mk('SEQUENCEOF', of=ir.mk('NULL'))])
    comps = [ir.comp('o', first, 'opt'),
             ir.comp('l', ir.mk(lk, tags=tg(12) or [['I', 'C', 12]], of=E), 'def', [ev] * nd),
             ir.comp('m', ir.mk(lk, tags=[['I', 'C', 13]], of=E)),
             ir.comp('z', ir.mk('INTEGER', tags=[['I', 'C', 14]]), 'opt')]
    if d.pct(30):
        comps[1], comps[2] = comps[2], comps[1]
    T = ir.mk(d.pick(['SEQUENCE', 'SEQUENCE', 'SET']), comps=comps)
    v = {'l': [ev] * nv, 'm': [ev] * nm}
    if d.pct(60):
        v['o'] = draw_value(d, first)
    if d.pct(50):
        v['z'] = d.int(-2, 200)
    return T, v


def many_choice_case(d):
    """A list of about a hundred untagged CHOICE values whose alternatives are a string (constructed when chunked), a record and
    a number: whatever a codec keeps per element - a depth counter, a cache entry, a position - is exercised a hundred times in
    one call. -> (T, v)"""
    C = ir.mk('CHOICE', alts=[{'name': 's', 't': ir.mk(d.pick(['OCTETSTRING', 'UTF8String', 'BITSTRING']))},
                              {'name': 'r', 't': ir.mk(d.pick(['SEQUENCE', 'SET']), comps=[ir.comp('x', ir.mk('INTEGER'))])},
                              {'name': 'n', 't': ir.mk('INTEGER', tags=[['I', 'C', 2]])}])
    T = ir.mk(d.pick(['SEQUENCEOF', 'SEQUENCEOF', 'SETOF']), of=C)
    if d.pct(30):
        T = ir.mk('SEQUENCE', comps=[ir.comp('l', T), ir.comp('z', ir.mk('INTEGER'), 'opt')])
    n = d.pick([96, 97, 98, 99, 100, 101, 128, 130])
    sd = D(d.draw, dict(d.cfg, long_str_pct=0))
    few = []
    all_records = d.pct(60)          # every element a constructed alternative (what is kept per such element adds up fastest)
    for _ in range(4):
        a = C['alts'][1] if all_records else d.pick(C['alts'][:2] if d.pct(80) else C['alts'])
        few.append((a['name'], draw_value(sd, a['t'])))
    lst = [few[(i * 3 + i // 4) % 4] for i in range(n)]
    if T['k'] == 'SEQUENCE':
        v = {'l': lst}
        if d.pct(50):
            v['z'] = d.int(0, 9)
        return T, v
    return T, lst


def codec_sensitive_default_case(d):
    """A record whose constructed DEFAULT holds what BER, CER and DER write differently - BOOLEAN TRUE, SET OF members out of
    order, a SET - and a value that equals the DEFAULT (given explicitly) or differs from it in one place. -> (T, v)"""
    shape = d.pick(['bools', 'setof', 'set', 'nested'])
    if shape == 'bools':
        D0 = ir.mk('SEQUENCEOF', of=ir.mk('BOOLEAN'))
        dv = [True] * d.int(1, 3)
        other = [True] * len(dv) + [False]
    elif shape == 'setof':
        D0 = ir.mk('SETOF', of=ir.mk('INTEGER'))
        dv = [5, 3, 260, 1][:d.int(2, 4)]
        other = dv[:-1]
    elif shape == 'set':
        D0 = ir.mk('SET', comps=[ir.comp('p', ir.mk('OCTETSTRING')), ir.comp('q', ir.mk('BOOLEAN')), ir.comp('r', ir.mk('INTEGER'), 'opt')])
        dv = {'p': b'x', 'q': True}
        other = {'p': b'x', 'q': False}
    else:
        D0 = ir.mk('SEQUENCE', comps=[ir.comp('p', ir.mk('SETOF', of=ir.mk('OCTETSTRING'))), ir.comp('q', ir.mk('BOOLEAN'), 'def', True)])
        dv = {'p': [b'b', b'a', b''], 'q': True}
        other = {'p': [b'b', b'a'], 'q': True}
    if d.cfg['tags'] and d.pct(40):
        D0['tags'] = [[d.pick(['E', 'I']) if d.cfg['implicit'] else 'E', 'C', d.int(0, 3)]]
    T = ir.mk(d.pick(['SEQUENCE', 'SEQUENCE', 'SET']), comps=[ir.comp('a', ir.mk('INTEGER')), ir.comp('c', D0, 'def', dv),
                                                              ir.comp('z', ir.mk('NULL'), 'opt')])
    v = {'a': d.int(-2, 300)}
    r = d.int(0, 9)
    if r < 5:
        v['c'] = dv
    elif r < 8:
        v['c'] = other
    if d.pct(40):
        v['z'] = None
    return T, v
