"""Independent X.690 reference (BER / CER / DER).  Imports nothing from pyasn1.

  der(T, v), cer(T, v)           the distinguished encodings
  ber(T, v, chooser)             a BER encoding in which every choice point is taken from `chooser`
  read(T, data)                  guided strict-BER reader -> IR value (raises RefError)
  walk(data)                     schemaless TLV tree
  ident()/length()/parse_header  identifier and length octets

Written from X.690 (2008/2015 numbering): 8.1 structure, 8.2 BOOLEAN, 8.3 INTEGER, 8.5 REAL,
8.6 BIT STRING, 8.7 OCTET STRING, 8.9-8.12 SEQUENCE/SET(/OF), 8.13 CHOICE, 8.14 tagged, 8.19 OID,
8.23 restricted strings, 9 (CER), 10-11 (DER).
"""
import re
from .ir import (UNIVERSAL, CHAR_CODEC, CHAR_KINDS, STRING_KINDS, RECORD_KINDS, OF_KINDS,
                 CLS_BITS, BITS_CLS, tag_stack, first_tags)

CLS_ORDER = {'U': 0, 'A': 1, 'C': 2, 'P': 3}


class RefError(Exception):
    """kind in truncated | malformed | mismatch | trailing | unsupported"""
    def __init__(self, kind, msg=''):
        Exception.__init__(self, kind, msg)
        self.kind = kind
        self.msg = msg


# ------------------------------------------------------------------ identifier / length octets

def ident(cls, constructed, num):
    b0 = CLS_BITS[cls] | (0x20 if constructed else 0)
    if num < 31:
        return bytes([b0 | num])
    out = [num & 0x7f]
    num >>= 7
    while num:
        out.append(0x80 | (num & 0x7f))
        num >>= 7
    return bytes([b0 | 0x1f] + out[::-1])


def length(n, pad=0, force_long=False):
    """Definite length octets; pad = number of superfluous leading zero octets (long form)."""
    if n < 0x80 and not pad and not force_long:
        return bytes([n])
    body = n.to_bytes(max(1, (n.bit_length() + 7) // 8), 'big')
    body = b'\x00' * pad + body
    if len(body) > 126:
        raise ValueError('length of length')
    return bytes([0x80 | len(body)]) + body


def parse_header(d, pos, limit=None):
    """-> (cls, constructed, num, length or None for indefinite, position of the contents).
    limit: end of the enclosing definite element (None at top level / under indefinite)."""
    n = len(d)

    def need(p, k):
        if limit is not None and p + k > limit:
            raise RefError('malformed', 'element overruns its container at %d' % p)
        if p + k > n:
            raise RefError('truncated', 'need %d octet(s) at %d' % (k, p))

    need(pos, 1)
    b0 = d[pos]
    pos += 1
    cls = BITS_CLS[b0 & 0xC0]
    constructed = bool(b0 & 0x20)
    num = b0 & 0x1f
    if num == 0x1f:
        num = 0
        first = True
        while True:
            need(pos, 1)
            b = d[pos]
            pos += 1
            if first and b == 0x80:
                raise RefError('malformed', 'non-minimal high tag number')
            first = False
            num = (num << 7) | (b & 0x7f)
            if not b & 0x80:
                break
        if num < 31:
            raise RefError('malformed', 'high-tag-number form used for a tag number below 31')
    need(pos, 1)
    l0 = d[pos]
    pos += 1
    if l0 < 0x80:
        ln = l0
    elif l0 == 0x80:
        ln = None
    elif l0 == 0xff:
        raise RefError('malformed', 'reserved length octet ff')
    else:
        k = l0 & 0x7f
        need(pos, k)
        ln = int.from_bytes(d[pos:pos + k], 'big')
        pos += k
    return cls, constructed, num, ln, pos


# ------------------------------------------------------------------ content octets (writer side)

def int_content(v):
    v = int(v)
    n = 1
    while not (-(1 << (8 * n - 1)) <= v < (1 << (8 * n - 1))):
        n += 1
    return v.to_bytes(n, 'big', signed=True)


def oid_content(v):
    v = tuple(v)
    if len(v) < 2 or v[0] not in (0, 1, 2) or (v[0] < 2 and v[1] > 39) or min(v) < 0:
        raise ValueError('not an OID value: %r' % (v,))
    subs = (v[0] * 40 + v[1],) + v[2:]
    out = bytearray()
    for s in subs:
        chunk = [s & 0x7f]
        s >>= 7
        while s:
            chunk.append(0x80 | (s & 0x7f))
            s >>= 7
        out += bytes(chunk[::-1])
    return bytes(out)


def real10_variant(m, e, form):
    """Non-canonical ISO 6093 spellings of m * 10**e that BER allows (X.690 8.5.7): 1 = NR1 (integers only), 2 = NR2 (decimal
    mark, no exponent), 3 = NR3 with a fraction digit, an explicit sign and a lower-case e, 4 = a leading space; None when the
    form does not fit the value."""
    neg, a = m < 0, abs(m)
    sign = '-' if neg else ''
    if form == 1 and 0 <= e <= 24:
        return b'\x01' + (sign + str(a * 10 ** e)).encode('ascii')
    if form == 2 and -24 <= e <= 24:
        if e >= 0:
            txt = str(a * 10 ** e) + '.0'
        else:
            digits = str(a).rjust(-e + 1, '0')
            txt = digits[:e] + '.' + digits[e:]
        return b'\x02' + (sign + txt).encode('ascii')
    if form == 3:
        return b'\x03' + ('%s%d.0e%+d' % ('+' if not neg else '-', a, e)).encode('ascii')
    if form == 4:
        return b'\x03' + (' %s%d.E%s' % (sign, a, '+0' if e == 0 else '%d' % e)).encode('ascii')
    return None


def real_content(v, shift=0, canonical10=True, form10=0, binform=None):
    if v == 0:
        return b''
    if v == 'inf':
        return b'\x40'
    if v == '-inf':
        return b'\x41'
    m, b, e = v
    if m == 0:
        return b''
    if b == 2:
        sign = 0x40 if m < 0 else 0
        m = abs(m)
        while m % 2 == 0:          # X.690 11.3.1: mantissa odd
            m //= 2
            e += 1
        if shift:                  # BER only: any mantissa is allowed
            m <<= shift
            e -= shift
        bsel, f, expform = 0, 0, 0
        if binform:
            # BER only (X.690 8.5.7): base 8 / 16, a scaling factor F, and the four ways of saying how long the exponent is
            bsel, f, expform = binform
            k = (1, 3, 4)[bsel]
            e2 = e - f
            big_e = e2 // k                  # floor division: 0 <= r < k
            r = e2 - k * big_e
            m <<= r
            e = big_e
        eo = int_content(e)
        if expform == 3 or len(eo) > 3:
            # 8.5.7.4 d: length-prefixed, the exponent itself minimal
            fo, pre = 3, bytes([len(eo)])
        else:
            if expform in (1, 2):
                # 8.5.7.4 a-c do not ask for the shortest form: one or two octets of sign extension
                want = min(3, len(eo) + expform)
                eo = e.to_bytes(want, 'big', signed=True)
            fo, pre = len(eo) - 1, b''
        mo = m.to_bytes((m.bit_length() + 7) // 8, 'big')
        return bytes([0x80 | sign | (bsel << 4) | (f << 2) | fo]) + pre + eo + mo
    if b == 10:
        # ISO 6093 NR3 as restricted by X.690 11.3.2
        while m % 10 == 0:
            m //= 10
            e += 1
        if form10:
            alt = real10_variant(m, e, form10)
            if alt is not None:
                return alt
        s = '%d.E%s' % (m, '+0' if e == 0 else '%d' % e)
        return b'\x03' + s.encode('ascii')
    raise ValueError('REAL base %r' % (b,))


def bits_content(v):
    nbits, val = v
    nbytes = (nbits + 7) // 8
    unused = nbytes * 8 - nbits
    return unused, (val << unused).to_bytes(nbytes, 'big') if nbytes else b''


def char_content(kind, s):
    return s.encode(CHAR_CODEC[kind])


# ------------------------------------------------------------------ choosers
# Every choice point is identified by a path into the (T, v) tree, so that a recorded set of decisions can be
# replayed even when one feature of the encoding is changed on purpose (see Replay).

class Der(object):
    name = 'DER'
    canonical = True
    indef = False

    def indefinite(self, where, T=None, path=''):
        return False

    def len_form(self, n, path=''):
        return 0, False

    def true_octet(self, path=''):
        return 0xff

    def segments(self, nbytes, is_bits, path=''):
        return None

    def emit_default(self, path=''):
        return False

    def real_shift(self, path=''):
        return 0

    def real10_form(self, path=''):
        return 0

    def real_bin_form(self, path=''):
        return None

    def permute(self, n, what, path=''):
        return None


class Cer(Der):
    name = 'CER'
    indef = True

    def indefinite(self, where, T=None, path=''):
        return True

    def segments(self, nbytes, is_bits, path=''):
        if nbytes <= 1000:
            return None
        out = []
        while nbytes > 0:
            out.append((min(1000, nbytes), None))
            nbytes -= 1000
        return out


class Fixed(Der):
    """A BER chooser with constant answers (the corners pyasn1's own encoder can produce)."""
    canonical = False

    def __init__(self, indef=False, chunk=0, true=1, name=None):
        self.indef = indef
        self.chunk = chunk
        self.true = true
        self.name = name or 'BER(indef=%s,chunk=%d)' % (indef, chunk)

    def indefinite(self, where, T=None, path=''):
        return self.indef

    def true_octet(self, path=''):
        return self.true

    def segments(self, nbytes, is_bits, path=''):
        if not self.chunk or nbytes <= self.chunk:
            return None
        out = []
        while nbytes > 0:
            out.append((min(self.chunk, nbytes), None))
            nbytes -= self.chunk
        return out


class Recording(object):
    """Wraps a chooser; records every decision under its path (script) and which choice points were taken
    non-canonically (feat)."""
    def __init__(self, inner):
        self.inner = inner
        self.canonical = inner.canonical
        self.name = inner.name
        self.feat = {}
        self.script = {}

    def _note(self, k):
        self.feat[k] = self.feat.get(k, 0) + 1

    def indefinite(self, where, T=None, path=''):
        r = self.inner.indefinite(where, T, path)
        self._note('indef' if r else 'def')
        self.script['I' + path] = bool(r)
        return r

    def len_form(self, n, path=''):
        pad, fl = self.inner.len_form(n, path)
        if pad or (fl and n < 0x80):
            self._note('overlong_len')
        self.script['L' + path] = [pad, fl]
        return pad, fl

    def true_octet(self, path=''):
        r = self.inner.true_octet(path)
        if r not in (1, 0xff):
            self._note('odd_true')
        self.script['T' + path] = r
        return r

    def segments(self, nbytes, is_bits, path=''):
        r = self.inner.segments(nbytes, is_bits, path)
        if r is not None:
            self._note('segmented')
            if any(s is not None for _, s in r):
                self._note('nested_segments')
            if len({n for n, _ in r[:-1]}) > 1:
                self._note('uneven_segments')
            if any(n == 0 for n, _ in r):
                self._note('empty_segment')
        self.script['S' + path] = r
        return r

    def emit_default(self, path=''):
        r = self.inner.emit_default(path)
        if r:
            self._note('explicit_default')
        self.script['D' + path] = bool(r)
        return r

    def real_shift(self, path=''):
        r = self.inner.real_shift(path)
        if r:
            self._note('real_shift')
        self.script['R' + path] = r
        return r

    def real10_form(self, path=''):
        r = self.inner.real10_form(path) if hasattr(self.inner, 'real10_form') else 0
        if r:
            self._note('real10_form')
        self.script['F' + path] = r
        return r

    def real_bin_form(self, path=''):
        r = self.inner.real_bin_form(path) if hasattr(self.inner, 'real_bin_form') else None
        if r:
            self._note('real_bin_form')
        self.script['B' + path] = list(r) if r else None
        return r

    def permute(self, n, what, path=''):
        r = self.inner.permute(n, what, path)
        if r is not None and list(r) != list(range(n)):
            self._note('permuted_' + what)
        self.script['P' + path] = None if r is None else list(r)
        return r


def _seg_tree(x):
    if x is None:
        return None
    return [(int(n), _seg_tree(sub)) for n, sub in x]


class Replay(object):
    """Chooser that replays a Recording.script for the same (T, v). Decisions are looked up by path; a decision
    the script does not hold is taken canonically. Overrides neutralise one feature of the variant:
    definite_any - explicit wrappers of ANY get definite length; flat_bits - no nested BIT STRING segments."""
    canonical = False
    name = 'BER(replayed)'

    def __init__(self, script, definite_any=False, flat_bits=False):
        self.s = script
        self.definite_any = definite_any
        self.flat_bits = flat_bits

    def indefinite(self, where, T=None, path=''):
        if self.definite_any and T is not None and T.get('k') == 'ANY':
            return False
        return bool(self.s.get('I' + path, False))

    def len_form(self, n, path=''):
        pad, fl = self.s.get('L' + path, (0, False))
        return int(pad), bool(fl)

    def true_octet(self, path=''):
        return int(self.s.get('T' + path, 0xff))

    def segments(self, nbytes, is_bits, path=''):
        r = _seg_tree(self.s.get('S' + path))
        if r is not None and is_bits and self.flat_bits:
            r = [(n, None) for n, _sub in r]
        return r

    def emit_default(self, path=''):
        return bool(self.s.get('D' + path, False))

    def real_shift(self, path=''):
        return int(self.s.get('R' + path, 0))

    def real10_form(self, path=''):
        return int(self.s.get('F' + path, 0))

    def real_bin_form(self, path=''):
        r = self.s.get('B' + path)
        return tuple(int(x) for x in r) if r else None

    def permute(self, n, what, path=''):
        return self.s.get('P' + path)


# ------------------------------------------------------------------ writer

def _tl(cls, constructed, num, content, ch, indef, path=''):
    if indef:
        return ident(cls, True, num) + b'\x80' + content + b'\x00\x00'
    pad, fl = ch.len_form(len(content), path)
    return ident(cls, constructed, num) + length(len(content), pad, fl) + content


def _string_tlv(cls, num, data, unused, is_bits, seg, ch, path=''):
    """Encode a string value (data octets; unused bit count for BIT STRING) under tag cls/num with
    the segmentation tree seg (None = primitive; else [(size, subtree), ...])."""
    if seg is not None and is_bits and unused:
        # 8.6.4: only the last fragment may have unused bits, so it cannot be an empty one
        seg = list(seg)
        while seg and seg[-1][0] == 0:
            seg.pop()
        if not seg:
            seg = None
    if seg is None:
        content = (bytes([unused]) + data) if is_bits else data
        return _tl(cls, False, num, content, ch, False, path)
    parts = b''
    pos = 0
    for i, (size, sub) in enumerate(seg):
        piece = data[pos:pos + size]
        pos += size
        last = (i == len(seg) - 1)
        parts += _string_tlv('U', 3 if is_bits else 4, piece, unused if last else 0, is_bits, sub, ch,
                             '%s~%d' % (path, i))
    assert pos == len(data), (pos, len(data), seg)
    return _tl(cls, True, num, parts, ch, ch.indefinite('string', None, path), path)


def sort_key_tag(tag):
    return (CLS_ORDER[tag[0]], tag[1])


def _outer_tag_of_encoding(enc):
    cls, _c, num, _l, _p = parse_header(enc, 0)
    return (cls, num)


def _min_tag(T):
    ft = first_tags(T)
    if ft is None:
        raise ValueError('untagged ANY has no static tag')
    return min(ft, key=sort_key_tag)


def encode(T, v, ch, path=''):
    stack, has_base = tag_stack(T)
    k = T['k']
    if k == 'CHOICE':
        name, inner_v = v
        alt = [a for a in T['alts'] if a['name'] == name][0]
        inner = encode(alt['t'], inner_v, ch, path + '/' + name)
        wrappers = stack
    elif k == 'ANY':
        inner = bytes(v)
        wrappers = stack
    else:
        inner = _encode_base(T, v, stack[-1], ch, path)
        wrappers = stack[:-1]
    for i, (cls, num) in enumerate(reversed(wrappers)):
        wp = '%s@%d' % (path, i)
        inner = _tl(cls, True, num, inner, ch, ch.indefinite('explicit', T, wp), wp)
    return inner


def _encode_base(T, v, tag, ch, path=''):
    k = T['k']
    cls, num = tag
    if k == 'BOOLEAN':
        return _tl(cls, False, num, bytes([ch.true_octet(path) if v else 0]), ch, False, path)
    if k in ('INTEGER', 'ENUMERATED'):
        return _tl(cls, False, num, int_content(v), ch, False, path)
    if k == 'NULL':
        return _tl(cls, False, num, b'', ch, False, path)
    if k == 'OID':
        return _tl(cls, False, num, oid_content(v), ch, False, path)
    if k == 'REAL':
        return _tl(cls, False, num, real_content(v, ch.real_shift(path), form10=ch.real10_form(path) if hasattr(ch, 'real10_form') else 0,
                                                  binform=ch.real_bin_form(path) if hasattr(ch, 'real_bin_form') else None), ch, False, path)
    if k == 'BITSTRING':
        unused, data = bits_content(v)
        return _string_tlv(cls, num, data, unused, True, ch.segments(len(data), True, path), ch, path)
    if k == 'OCTETSTRING':
        data = bytes(v)
        return _string_tlv(cls, num, data, 0, False, ch.segments(len(data), False, path), ch, path)
    if k in CHAR_KINDS:
        data = v.encode(T.get('enc_opt') or CHAR_CODEC[k])
        return _string_tlv(cls, num, data, 0, False, ch.segments(len(data), False, path), ch, path)
    if k in RECORD_KINDS:
        items = []
        for c in T['comps']:
            cp = path + '/' + c['name']
            if c['name'] in v:
                cv = v[c['name']]
                if c['p'] == 'def' and _same_value(c['t'], cv, c['d']) and not ch.emit_default(cp):
                    continue
                items.append((c, encode(c['t'], cv, ch, cp)))
            elif c['p'] == 'def' and ch.emit_default(cp):
                items.append((c, encode(c['t'], c['d'], ch, cp)))
            elif c['p'] == 'req':
                raise ValueError('required component %s missing' % c['name'])
        if k == 'SET':
            if ch.canonical:
                if ch.name == 'CER':
                    # 9.3: untagged CHOICE ordered by the smallest tag of the type
                    items.sort(key=lambda it: sort_key_tag(_min_tag(it[0]['t'])))
                else:
                    # 10.3: ordered by the tag actually encoded
                    items.sort(key=lambda it: sort_key_tag(_outer_tag_of_encoding(it[1])))
            else:
                perm = ch.permute(len(items), 'set', path)
                if perm is not None and sorted(perm) == list(range(len(items))):
                    items = [items[i] for i in perm]
        body = b''.join(e for _, e in items)
        return _tl(cls, True, num, body, ch, ch.indefinite(k, T, path), path)
    if k in OF_KINDS:
        encs = [encode(T['of'], x, ch, '%s/%d' % (path, i)) for i, x in enumerate(v)]
        if k == 'SETOF':
            if ch.canonical:
                mx = max([len(e) for e in encs] or [0])
                encs.sort(key=lambda e: e.ljust(mx, b'\x00'))      # 11.6
            else:
                perm = ch.permute(len(encs), 'setof', path)
                if perm is not None and sorted(perm) == list(range(len(encs))):
                    encs = [encs[i] for i in perm]
        return _tl(cls, True, num, b''.join(encs), ch, ch.indefinite(k, T, path), path)
    raise ValueError('kind %r' % k)


def _same_value(T, a, b):
    from .ir import same
    return same(T, a, b)


_DER = Der()
_CER = Cer()


def der(T, v):
    return encode(T, v, _DER)


def cer(T, v):
    return encode(T, v, _CER)


def ber(T, v, ch):
    return encode(T, v, ch)


# ------------------------------------------------------------------ reader (strict BER)

def _int_from(c, what='INTEGER'):
    if not c:
        raise RefError('malformed', 'empty %s' % what)
    if len(c) > 1 and ((c[0] == 0 and c[1] < 0x80) or (c[0] == 0xff and c[1] >= 0x80)):
        raise RefError('malformed', 'non-minimal %s' % what)
    return int.from_bytes(c, 'big', signed=True)


def _oid_from(c):
    if not c:
        raise RefError('malformed', 'empty OID')
    subs = []
    cur = 0
    start = True
    for b in c:
        if start and b == 0x80:
            raise RefError('malformed', 'OID subidentifier with leading 80')
        start = False
        cur = (cur << 7) | (b & 0x7f)
        if not b & 0x80:
            subs.append(cur)
            cur = 0
            start = True
    if not start:
        raise RefError('malformed', 'OID ends inside a subidentifier')
    s0 = subs[0]
    x = min(s0 // 40, 2)
    return (x, s0 - 40 * x) + tuple(subs[1:])


_NR = re.compile(rb'^ *([+-]?)(\d*)(?:[.,](\d*))?(?:[eE]([+-]?\d+))?$')


def _real_from(c):
    if not c:
        return 0
    fo = c[0]
    if fo & 0x80:
        sign = -1 if fo & 0x40 else 1
        bb = (fo >> 4) & 3
        if bb == 3:
            raise RefError('malformed', 'reserved REAL base')
        f = (fo >> 2) & 3
        el = fo & 3
        p = 1
        if el == 3:
            if len(c) < 2:
                raise RefError('malformed', 'REAL exponent length missing')
            n = c[1]
            p = 2
        else:
            n = el + 1
        eo = c[p:p + n]
        mo = c[p + n:]
        if len(eo) != n or n == 0 or not mo:
            raise RefError('malformed', 'short binary REAL')
        e = int.from_bytes(eo, 'big', signed=True)
        m = int.from_bytes(mo, 'big')
        e *= (1, 3, 4)[bb]
        m = sign * m * (1 << f)
        if m == 0:
            return 0
        return (m, 2, e)
    if fo & 0x40:
        if len(c) != 1:
            raise RefError('malformed', 'special REAL with extra octets')
        if fo == 0x40:
            return 'inf'
        if fo == 0x41:
            return '-inf'
        raise RefError('unsupported', 'NaN / minus zero')
    nr = fo & 0x3f
    if nr not in (1, 2, 3):
        raise RefError('malformed', 'unknown decimal REAL form')
    mt = _NR.match(c[1:])
    if not mt or not ((mt.group(2) or b'') + (mt.group(3) or b'')):
        raise RefError('malformed', 'bad ISO 6093 number')
    sg, ip, fp, ex = mt.groups()
    fp = fp or b''
    m = int((ip or b'') + fp or b'0')
    if sg == b'-':
        m = -m
    e = int(ex or b'0') - len(fp)
    if m == 0:
        return 0
    while m % 10 == 0:
        m //= 10
        e += 1
    return (m, 10, e)


class _Reader(object):
    def __init__(self, data, trace=None):
        self.d = bytes(data)
        self.trace = trace        # list receiving one dict per base element read (typed walk)

    def need(self, pos, k, limit):
        if limit is not None and pos + k > limit:
            raise RefError('malformed', 'contents overrun the container at %d' % pos)
        if pos + k > len(self.d):
            raise RefError('truncated', 'need %d octet(s) at %d' % (k, pos))

    def at_eoo(self, pos, limit):
        """True if an end-of-contents marker starts at pos (needs 2 octets to tell)."""
        self.need(pos, 1, limit)
        if self.d[pos] != 0:
            return False
        self.need(pos, 2, limit)
        if self.d[pos + 1] != 0:
            raise RefError('malformed', 'tag 00 with non-zero length')
        return True

    def children_end(self, pos, ln, limit):
        """-> inner limit for a definite element."""
        end = pos + ln
        if limit is not None and end > limit:
            raise RefError('malformed', 'element longer than its container')
        return end

    # -- generic skipping (ANY, walk)
    def skip(self, pos, limit):
        cls, con, num, ln, p = parse_header(self.d, pos, limit)
        if cls == 'U' and num == 0:
            raise RefError('malformed', 'unexpected end-of-contents / tag 0')
        if ln is None:
            if not con:
                raise RefError('malformed', 'primitive with indefinite length')
            while not self.at_eoo(p, limit):
                p = self.skip(p, limit)
            return p + 2
        end = self.children_end(p, ln, limit)
        self.need(p, ln, limit)
        if con:
            q = p
            while q < end:
                q = self.skip(q, end)
        return end

    def peek_tag(self, pos, limit):
        cls, con, num, ln, p = parse_header(self.d, pos, limit)
        return (cls, num)

    # -- typed reading
    def rd(self, T, pos, limit):
        stack, has_base = tag_stack(T)
        return self.rd_layers(T, stack, has_base, pos, limit)

    def rd_layers(self, T, stack, has_base, pos, limit):
        if not stack:
            return self.rd_untagged(T, pos, limit)
        cls, con, num, ln, p = parse_header(self.d, pos, limit)
        if (cls, num) != stack[0]:
            raise RefError('mismatch', 'tag %s%d where %s%d expected' % (cls, num, stack[0][0], stack[0][1]))
        if len(stack) > 1 or not has_base:
            if not con:
                raise RefError('malformed', 'explicit tag in primitive form')
            if ln is None:
                v, q = self.rd_layers(T, stack[1:], has_base, p, limit)
                if not self.at_eoo(q, limit):
                    raise RefError('malformed', 'explicit tag holds more than one element')
                return v, q + 2
            end = self.children_end(p, ln, limit)
            v, q = self.rd_layers(T, stack[1:], has_base, p, end)
            if q != end:
                raise RefError('malformed', 'explicit tag holds more than one element')
            return v, q
        if self.trace is None:
            return self.rd_base(T, con, ln, p, limit)
        rec = {'T': T, 'con': con, 'ln': ln, 'start': pos, 'cstart': p}
        self.trace.append(rec)
        v, q = self.rd_base(T, con, ln, p, limit, rec)
        rec['end'] = q
        return v, q

    def rd_untagged(self, T, pos, limit):
        if T['k'] == 'ANY':
            end = self.skip(pos, limit)
            if self.trace is not None:
                self.trace.append({'T': T, 'any': True, 'start': pos, 'cstart': pos, 'end': end, 'con': None, 'ln': None})
            return self.d[pos:end], end
        tg = self.peek_tag(pos, limit)
        for a in T['alts']:
            ft = first_tags(a['t'])
            if ft is None or tg in ft:
                v, q = self.rd(a['t'], pos, limit)
                return (a['name'], v), q
        raise RefError('mismatch', 'no CHOICE alternative for tag %s%d' % tg)

    def prim(self, con, ln, p, limit):
        if con:
            raise RefError('malformed', 'constructed form of a primitive-only type')
        if ln is None:
            raise RefError('malformed', 'primitive with indefinite length')
        self.children_end(p, ln, limit)
        self.need(p, ln, limit)
        return self.d[p:p + ln], p + ln

    def string_leaves(self, is_bits, con, ln, p, limit, out):
        """Collect the primitive segments of a (possibly constructed) string."""
        if not con:
            c, q = self.prim(con, ln, p, limit)
            out.append(c)
            return q
        segtag = ('U', 3 if is_bits else 4)
        if ln is None:
            q = p
            while not self.at_eoo(q, limit):
                q = self.string_segment(is_bits, segtag, q, limit, out)
            return q + 2
        end = self.children_end(p, ln, limit)
        q = p
        while q < end:
            q = self.string_segment(is_bits, segtag, q, end, out)
        return q

    def string_segment(self, is_bits, segtag, pos, limit, out):
        cls, con, num, ln, p = parse_header(self.d, pos, limit)
        if (cls, num) != segtag:
            raise RefError('malformed', 'string segment tagged %s%d' % (cls, num))
        return self.string_leaves(is_bits, con, ln, p, limit, out)

    def rd_base(self, T, con, ln, p, limit, rec=None):
        k = T['k']
        if k == 'BOOLEAN':
            c, q = self.prim(con, ln, p, limit)
            if len(c) != 1:
                raise RefError('malformed', 'BOOLEAN of %d octets' % len(c))
            return c[0] != 0, q
        if k in ('INTEGER', 'ENUMERATED'):
            c, q = self.prim(con, ln, p, limit)
            return _int_from(c, k), q
        if k == 'NULL':
            c, q = self.prim(con, ln, p, limit)
            if c:
                raise RefError('malformed', 'NULL with contents')
            return None, q
        if k == 'OID':
            c, q = self.prim(con, ln, p, limit)
            return _oid_from(c), q
        if k == 'REAL':
            c, q = self.prim(con, ln, p, limit)
            return _real_from(c), q
        if k in STRING_KINDS:
            leaves = []
            q = self.string_leaves(k == 'BITSTRING', con, ln, p, limit, leaves)
            if rec is not None:
                rec['leaves'] = [len(c) for c in leaves]
                if con:
                    kids = []
                    qq = p
                    endc = q - 2 if ln is None else q
                    while qq < endc:
                        c2, con2, n2, ln2, p2 = parse_header(self.d, qq)
                        e2 = _Reader(self.d).skip(qq, None)
                        kids.append((con2, ln2))
                        qq = e2
                    rec['segments'] = kids
            if k == 'BITSTRING':
                nbits = 0
                val = 0
                for i, c in enumerate(leaves):
                    if not c:
                        raise RefError('malformed', 'BIT STRING segment without unused-bits octet')
                    un = c[0]
                    if un > 7 or (len(c) == 1 and un):
                        raise RefError('malformed', 'bad unused-bits octet')
                    if un and i != len(leaves) - 1:
                        raise RefError('malformed', 'unused bits in a non-final segment')
                    nb = 8 * (len(c) - 1) - un
                    val = (val << nb) | (int.from_bytes(c[1:], 'big') >> un)
                    nbits += nb
                return (nbits, val), q
            data = b''.join(leaves)
            if k == 'OCTETSTRING':
                return data, q
            try:
                return data.decode(T.get('enc_opt') or CHAR_CODEC[k]), q
            except (UnicodeDecodeError, ValueError):
                raise RefError('malformed', 'octets are not %s text' % k)
        if k in RECORD_KINDS or k in OF_KINDS:
            if not con:
                raise RefError('malformed', 'primitive form of a constructed type')
            if ln is None:
                end = None
                lim = limit
            else:
                end = self.children_end(p, ln, limit)
                lim = end

            def done(q):
                if end is None:
                    return self.at_eoo(q, lim)
                return q >= end

            q = p
            if k in OF_KINDS:
                out = []
                spans = []
                while not done(q):
                    q0 = q
                    v, q = self.rd(T['of'], q, lim)
                    out.append(v)
                    spans.append((q0, q))
                if rec is not None:
                    rec['elements'] = spans
            elif k == 'SEQUENCE':
                out = {}
                for c in T['comps']:
                    present = False
                    if not done(q):
                        ft = first_tags(c['t'])
                        present = ft is None or self.peek_tag(q, lim) in ft
                    if present:
                        out[c['name']], q = self.rd(c['t'], q, lim)
                    elif c['p'] == 'req':
                        if done(q):
                            raise RefError('malformed', 'required component %s missing' % c['name'])
                        raise RefError('mismatch', 'unexpected tag where %s expected' % c['name'])
                if not done(q):
                    raise RefError('mismatch', 'excess component in SEQUENCE')
            else:
                out = {}
                while not done(q):
                    tg = self.peek_tag(q, lim)
                    for c in T['comps']:
                        ft = first_tags(c['t'])
                        if ft is None or tg in ft:
                            break
                    else:
                        raise RefError('mismatch', 'no SET component for tag %s%d' % tg)
                    if c['name'] in out:
                        raise RefError('malformed', 'SET component %s twice' % c['name'])
                    out[c['name']], q = self.rd(c['t'], q, lim)
                for c in T['comps']:
                    if c['p'] == 'req' and c['name'] not in out:
                        raise RefError('malformed', 'required component %s missing' % c['name'])
            if end is None:
                q += 2
            return out, q
        raise ValueError('kind %r' % k)


def read(T, data, allow_rest=False):
    """Guided strict-BER read of one value of T from the start of data.
    -> value (allow_rest False: the whole of data must be consumed) or (value, consumed)."""
    r = _Reader(data)
    v, q = r.rd(T, 0, None)
    if allow_rest:
        return v, q
    if q != len(r.d):
        raise RefError('trailing', '%d octet(s) after the value' % (len(r.d) - q))
    return v


def read_traced(T, data):
    """-> (value, trace): trace has one record per base element (type node, form, spans, string segments)."""
    tr = []
    r = _Reader(data, tr)
    v, q = r.rd(T, 0, None)
    if q != len(r.d):
        raise RefError('trailing', '%d octet(s) after the value' % (len(r.d) - q))
    return v, tr


def tlv_end(data, pos=0):
    """End position of the complete TLV starting at pos (RefError if truncated/malformed)."""
    return _Reader(data).skip(pos, None)


# ------------------------------------------------------------------ schemaless walk

class Node(object):
    __slots__ = ('cls', 'con', 'num', 'ln', 'start', 'hdr_end', 'end', 'kids', 'depth')

    def __repr__(self):
        return 'Node(%s%d%s @%d..%d)' % (self.cls, self.num, '*' if self.con else '', self.start, self.end)

    @property
    def indefinite(self):
        return self.ln is None


def walk(data, pos=0, limit=None, depth=0):
    """-> (Node, end).  Children of constructed elements are parsed recursively."""
    r = _Reader(data)
    return _walk(r, pos, limit, depth)


def _walk(r, pos, limit, depth):
    cls, con, num, ln, p = parse_header(r.d, pos, limit)
    if cls == 'U' and num == 0:
        raise RefError('malformed', 'unexpected end-of-contents / tag 0')
    n = Node()
    n.cls, n.con, n.num, n.ln, n.start, n.hdr_end, n.depth = cls, con, num, ln, pos, p, depth
    n.kids = []
    if ln is None:
        if not con:
            raise RefError('malformed', 'primitive with indefinite length')
        q = p
        while not r.at_eoo(q, limit):
            kid, q = _walk(r, q, limit, depth + 1)
            n.kids.append(kid)
        n.end = q + 2
        return n, n.end
    end = r.children_end(p, ln, limit)
    r.need(p, ln, limit)
    if con:
        q = p
        while q < end:
            kid, q = _walk(r, q, end, depth + 1)
            n.kids.append(kid)
    n.end = end
    return n, end


def walk_all(data):
    """List of top-level nodes covering the whole of data."""
    out = []
    pos = 0
    while pos < len(data):
        n, pos = walk(data, pos)
        out.append(n)
    return out


def nodes(n):
    yield n
    for k in n.kids:
        for x in nodes(k):
            yield x


def max_depth(data):
    """Lenient estimate of the nesting depth of (possibly malformed) data: follows constructed headers greedily."""
    depth = 0
    best = 0
    ends = []
    pos = 0
    n = len(data)
    steps = 0
    while pos < n and steps < 10000:
        steps += 1
        while ends and ends[-1] is not None and pos >= ends[-1]:
            ends.pop()
            depth -= 1
        if data[pos:pos + 2] == b'\x00\x00' and ends and ends[-1] is None:
            ends.pop()
            depth -= 1
            pos += 2
            continue
        try:
            cls, con, num, ln, p = parse_header(data, pos)
        except RefError:
            break
        if con:
            depth += 1
            best = max(best, depth)
            ends.append(None if ln is None else p + ln)
            pos = p
        else:
            if ln is None:
                break
            pos = p + ln
    return best


# ------------------------------------------------------------------ start-up self test

_VECTORS = [
    ({'k': 'INTEGER', 'tags': []}, 0, '020100'),
    ({'k': 'INTEGER', 'tags': []}, 127, '02017f'),
    ({'k': 'INTEGER', 'tags': []}, 128, '02020080'),
    ({'k': 'INTEGER', 'tags': []}, 256, '02020100'),
    ({'k': 'INTEGER', 'tags': []}, -128, '020180'),
    ({'k': 'INTEGER', 'tags': []}, -129, '0202ff7f'),
    ({'k': 'BOOLEAN', 'tags': []}, True, '0101ff'),
    ({'k': 'NULL', 'tags': []}, None, '0500'),
    ({'k': 'OID', 'tags': []}, (1, 2, 840, 113549), '06062a864886f70d'),
    ({'k': 'OID', 'tags': []}, (2, 100, 3), '0603813403'),
    ({'k': 'OID', 'tags': []}, (2, 999, 3), '0603883703'),
    ({'k': 'BITSTRING', 'tags': []}, (44, 0x0a3b5f291cd), '0307040a3b5f291cd0'),
    ({'k': 'OCTETSTRING', 'tags': []}, b'\x01\x23\x45\x67\x89\xab\xcd\xef', '04080123456789abcdef'),
    ({'k': 'OCTETSTRING', 'tags': []}, b'x' * 201, '0481c9' + '78' * 201),
    ({'k': 'REAL', 'tags': []}, 0, '0900'),
    ({'k': 'REAL', 'tags': []}, 'inf', '090140'),
    ({'k': 'REAL', 'tags': []}, '-inf', '090141'),
    ({'k': 'REAL', 'tags': []}, (1, 2, 0), '0903800001'),
    ({'k': 'REAL', 'tags': []}, (-5, 2, -3), '0903c0fd05'),
    ({'k': 'REAL', 'tags': []}, (3, 2, 1000), '09048103e803'),
    ({'k': 'INTEGER', 'tags': [['I', 'C', 31]]}, 5, '9f1f0105'),
    ({'k': 'INTEGER', 'tags': [['I', 'A', 128]]}, 5, '5f81000105'),
    ({'k': 'INTEGER', 'tags': [['E', 'C', 0]]}, 5, 'a003020105'),
    ({'k': 'INTEGER', 'tags': [['E', 'C', 0], ['I', 'P', 3]]}, 5, 'e303020105'),
    ({'k': 'IA5String', 'tags': []}, 'Smith', '1605536d697468'),
    ({'k': 'SEQUENCE', 'tags': [], 'comps': [
        {'name': 'name', 't': {'k': 'IA5String', 'tags': []}, 'p': 'req'},
        {'name': 'ok', 't': {'k': 'BOOLEAN', 'tags': []}, 'p': 'req'}]},
     {'name': 'Smith', 'ok': True}, '300a1605536d6974680101ff'),
]


def selftest():
    for T, v, hx in _VECTORS:
        got = der(T, v)
        if got.hex() != hx:
            raise AssertionError('reference DER vector failed: %r %r -> %s, expected %s' % (T, v, got.hex(), hx))
        back = read(T, got)
        from .ir import same
        if not same(T, back, v):
            raise AssertionError('reference reader vector failed: %r %r -> %r' % (T, v, back))
    if length(201) != b'\x81\xc9' or length(127) != b'\x7f' or length(128) != b'\x81\x80' or \
            length(65536) != b'\x83\x01\x00\x00' or length(5, pad=2) != b'\x83\x00\x00\x05':
        raise AssertionError('reference length vectors failed')
    if ident('C', True, 16383) != b'\xbf\xff\x7f' or ident('P', False, 30) != b'\xde':
        raise AssertionError('reference identifier vectors failed')
    return True


# ------------------------------------------------------------------ single-node rewrites (C15)

def reserialize(data, node, target=None, how=None, arg=None):
    """Re-serialise the TLV tree under `node` (from walk) with minimal definite lengths, applying one rewrite
    to the node `target`:  how = 'indef'  constructed node gets indefinite length;
    'segment'  primitive string node becomes constructed (arg: is_bits, or (is_bits, nparts): nparts 0 = no segment at all
    (empty strings only), 1 = one segment, 2 = two when the contents allow, None = as many as the contents allow up to two);
    'content'  primitive node gets the contents octets arg."""
    if node.con:
        body = b''.join(reserialize(data, k, target, how, arg) for k in node.kids)
    else:
        body = data[node.hdr_end:node.end]
    if node is target:
        if how == 'indef':
            return ident(node.cls, True, node.num) + b'\x80' + body + b'\x00\x00'
        if how == 'content':
            body = arg
        if how == 'segment':
            is_bits, nparts = arg if isinstance(arg, tuple) else (arg, None)
            segtag = ident('U', False, 3 if is_bits else 4)
            if nparts == 0:
                if body != (b'\x00' if is_bits else b''):
                    raise ValueError('only an empty string has a segment-less constructed form')
                parts = []
            elif is_bits:
                unused, payload = body[0], body[1:]
                if len(payload) >= 2 and nparts != 1:
                    h = len(payload) // 2
                    parts = [bytes([0]) + payload[:h], bytes([unused]) + payload[h:]]
                else:
                    parts = [body]
            else:
                if len(body) >= 2 and nparts != 1:
                    h = len(body) // 2
                    parts = [body[:h], body[h:]]
                else:
                    parts = [body]
            inner = b''.join(segtag + length(len(p)) + p for p in parts)
            return ident(node.cls, True, node.num) + length(len(inner)) + inner
    return ident(node.cls, node.con, node.num) + length(len(body)) + body
